"""C06 — duration output conserves the total (refinement rule).

Decided (for all durations and all unit subsets, by the structure of the cascade):

 RF-cascade   precalc: after taking the absolute value of the total seconds, the unit blocks come in strictly decreasing unit
              order, each block divides and reduces by the same constant, the seconds slot receives the whole rest: so the
              printed components recombine to the total truncated toward zero
 RF-cons      sign and leap second correction: on every path that fills the seconds slot, sign * (components * units + seconds) equals
              days*86400 + seconds + correction as a polynomial identity (the correction loses its sign with the total)
 RF-range     for each of the 16 combinations of week / day / hour / minute being requested, every refined component is
              non-negative and below (next coarser requested unit / own unit) -- interval analysis partitioned by the flags
 RF-unit      sibling agreement between the three places that know a unit: the specifier sets flag F (determine_durfmt), the
              block guarded by F fills field X with total / U (precalc), the same specifier prints field X (__strfdtdur), and U
              is the number of seconds of that specifier's unit
 RF-pre-ro    the print loop never writes the precomputed components (each specifier may occur several times)
 RF-sign      exactly one minus sign is written, before the loop, from the sign of the total; all components are printed
              from non-negative values
 RF-handshake the day borrow between date part and time part: every case of dt_ddiff that borrows a day reports it in res.fix,
              and dt_dtdiff shifts the seconds by one day when it is set
 RF3-widen    every product of a day count with seconds-per-day (or a larger unit) is computed in 64 bits

Not decided: that dt_dtdiff's value is the difference of the inputs (C05's domain), the month/year split.
"""
from core import (AnalysisBroken, strip, kids, const_of, call_args, expr_text, walk, CASTS, member_path, switch_cases)
import intervals
from intervals import Intervals

# what a duration specifier counts, in seconds (frozen from lib/token.h's meaning of the codes; months / years are not fixed multiples)
SPEC_UNIT = {"DT_SPFL_N_HOUR": 3600, "DT_SPFL_N_MIN": 60, "DT_SPFL_N_SEC": 1, "DT_SPFL_N_TSTD": 1,
             "DT_SPFL_N_DCNT_MON": 86400, "DT_SPFL_N_DSTD": 86400, "DT_SPFL_N_WCNT_MON": 604800, "DT_SPFL_N_DCNT_WEEK": 604800}


def _mkey(fn, e):
    e = strip(e)
    while e is not None and e.get("k") in CASTS and e.get("c"):
        e = strip(e["c"][0])
    if e is not None and e.get("k") == "MemberExpr":
        b, path = member_path(e)
        if b is not None and b.get("k") == "DeclRefExpr":
            return b["d"], [p for p in path if p][-1]
    return None, None


def decode_cascade(fn):
    """-> (us variable, [(flag, field, div const, mod const, node)], rest field, abs_ok)"""
    f = fn.params[0]["d"]
    blocks = []
    us = None
    for s in kids(fn.body):
        if s.get("k") != "IfStmt":
            continue
        d, flag = _mkey(fn, s["c"][0])
        if d != f:
            continue
        body = s["c"][1]
        stmts = kids(body) if body.get("k") == "CompoundStmt" else [body]
        div = mod = None
        for st in stmts:
            if st.get("k") in ("BinaryOperator", "CompoundAssignOperator") and st.get("op") in ("=", "+="):
                r = strip(st["c"][1])
                bd, field = _mkey(fn, st["c"][0])
                if r is not None and r.get("k") == "BinaryOperator" and r.get("op") == "/" and const_of(r["c"][1]) is not None and field:
                    v = strip(r["c"][0])
                    if v is not None and v.get("k") == "DeclRefExpr":
                        div = (field, v["d"], const_of(r["c"][1]))
            if st.get("k") == "CompoundAssignOperator" and st.get("op") == "%=":
                v = strip(st["c"][0])
                if v is not None and v.get("k") == "DeclRefExpr" and const_of(st["c"][1]) is not None:
                    mod = (v["d"], const_of(st["c"][1]))
        if div is not None:
            blocks.append((flag, div[0], div[2], mod[1] if mod and mod[0] == div[1] else None, s))
            us = div[1]
        elif len(stmts) == 1 and stmts[0].get("k") == "BinaryOperator" and stmts[0].get("op") == "=":
            # rest: res.S = us + corr
            bd, field = _mkey(fn, stmts[0]["c"][0])
            if any(y.get("k") == "DeclRefExpr" and y.get("d") == us for y in walk(stmts[0]["c"][1])) and us is not None:
                blocks.append((flag, field, 1, None, s))
    return us, blocks


def check_cascade(P, R, tu):
    rule = "RF-cascade"
    fn = tu.func("precalc")
    if fn is None:
        raise AnalysisBroken("precalc vanished")
    R.saw(fn)
    us, blocks = decode_cascade(fn)
    if us is None or len(blocks) < 4:
        raise AnalysisBroken("%s: the unit cascade of precalc was not recognised (%d blocks)" % (rule, len(blocks)))
    prev = None
    for flag, field, dv, md, node in blocks:
        if dv == 1:
            # the rest
            if prev is not None and prev > 1:
                R.ob(rule, "rest of the total goes to .%s" % field, True)
            continue
        if md is None or md != dv:
            R.finding(rule, fn, "block %s" % flag, "the block for %s stores total / %d but reduces the total modulo %s: the components no "
                      "longer recombine to the total" % (flag, dv, md), node)
        else:
            R.ob(rule, "%s: .%s = total / %d; total %%= %d" % (flag, field, dv, dv), True)
        if prev is not None and dv >= prev:
            R.finding(rule, fn, "order %s" % flag, "the block for %s (unit %d s) comes after a block with unit %d s: a finer unit is taken "
                      "out before a coarser one" % (flag, dv, prev), node)
        prev = dv
    if blocks[-1][2] != 1:
        R.finding(rule, fn, "rest", "the finest slot does not receive the rest of the total", blocks[-1][4])
    # the total is made non-negative before the cascade: us = W >= 0 ? us : -us, where W is the total itself or the total plus a
    # multiple of the leap correction (the `whole' duration; the correction is 0 for every format without %r, which is what the
    # property speaks about -- that us >= 0 follows is RF-range's interval proof under that assumption)
    absok = False

    def total_like(w):
        """w is the total itself, or the total plus something that does not depend on it (one definition)"""
        if w is None:
            return False
        if w.get("d") == us:
            return True
        if w.get("k") != "DeclRefExpr":
            return False
        defs = [y for y in fn.walk() if y.get("k") == "BinaryOperator" and y.get("op") == "=" and strip(y["c"][0]).get("d") == w.get("d")]
        defs += [y for y in fn.walk() if y.get("k") == "Var" and y.get("d") == w.get("d") and kids(y)]
        if len(defs) != 1:
            return False
        rhs = strip(defs[0]["c"][1]) if defs[0].get("k") == "BinaryOperator" else strip(kids(defs[0])[0])
        if rhs is not None and rhs.get("k") == "BinaryOperator" and rhs.get("op") == "+":
            l, rr = strip(rhs["c"][0]), strip(rhs["c"][1])
            return (l.get("d") == us and not any(z.get("d") == us for z in walk(rr))) or \
                (rr.get("d") == us and not any(z.get("d") == us for z in walk(l)))
        return False

    def negative_test(c, pol):
        """the condition c (taken with polarity pol) says `W < 0` for a total-like W"""
        c = strip(c)
        if c is None or c.get("k") != "BinaryOperator":
            return False
        op, a, b = c.get("op"), strip(c["c"][0]), strip(c["c"][1])
        if const_of(a) == 0 and const_of(b) is None:
            a, b, op = b, a, {"<": ">", ">": "<", "<=": ">=", ">=": "<="}.get(op, op)
        if const_of(b) != 0:
            return False
        return ((op == "<" and pol) or (op == ">=" and not pol)) and total_like(a)
    for x in fn.walk():
        if x.get("k") == "BinaryOperator" and x.get("op") == "=" and strip(x["c"][0]).get("k") == "DeclRefExpr" and strip(x["c"][0]).get("d") == us:
            r = strip(x["c"][1])
            if r is not None and r.get("k") == "ConditionalOperator":
                # us = W >= 0 ? us : -us   (or the mirrored form)
                c, a, b = strip(r["c"][0]), strip(r["c"][1]), strip(r["c"][2])
                neg_b = b.get("k") == "UnaryOperator" and b.get("op") == "-" and strip(b["c"][0]).get("d") == us and a.get("d") == us
                neg_a = a.get("k") == "UnaryOperator" and a.get("op") == "-" and strip(a["c"][0]).get("d") == us and b.get("d") == us
                if (neg_b and negative_test(c, False)) or (neg_a and negative_test(c, True)):
                    absok = True
            elif r is not None and r.get("k") == "UnaryOperator" and r.get("op") == "-" and strip(r["c"][0]).get("d") == us:
                # if (W < 0) us = -us;   /   if (W >= 0) ... else { us = -us; }
                par, cur = fn.parent(x), x
                while par is not None and par.get("k") != "IfStmt":
                    cur, par = par, fn.parent(par)
                if par is not None:
                    in_then = cur is par["c"][1] or (par["c"][1] is not None and any(y is x for y in walk(par["c"][1])))
                    if negative_test(par["c"][0], in_then):
                        absok = True
    if absok:
        R.ob("RF-sign", "precalc takes the absolute value of the total before splitting it", True)
    else:
        R.finding("RF-sign", fn, "absolute value", "the total is split without being made non-negative first: components carry their own signs")
    return us, blocks


def check_ranges(P, R, tu, us, blocks):
    rule = "RF-range"
    fn = tu.func("precalc")
    f = fn.params[0]["d"]
    flagkeys = {}
    for s in kids(fn.body):
        if s.get("k") == "IfStmt":
            d, flag = _mkey(fn, s["c"][0])
            if d == f:
                iv0 = Intervals(fn)
                flagkeys[flag] = iv0.key_of(strip(s["c"][0]))
    units = [(flag, field, dv) for flag, field, dv, md, node in blocks if dv > 1]
    keys = [flagkeys[fl] for fl, _, _ in units if flagkeys.get(fl) is not None]
    if len(keys) != len(units):
        raise AnalysisBroken("%s: flag keys of precalc not resolved" % rule)
    # the formats the property speaks about (%Y %m %w %d %H %M %S) are not leap-aware: the correction is 0
    iv = Intervals(fn, call_ranges={"__strf_tot_corr": (0, 0)})
    iv.force_discriminators = keys
    for v in fn.walk():
        if v.get("k") == "Var" and kids(v) and strip(kids(v)[0]) is not None and strip(kids(v)[0]).get("callee") == "__strf_tot_corr":
            iv.zero_keys = set(iv.zero_keys) | {iv.key_of({"k": "DeclRefExpr", "d": v["d"], "n": v.get("n"), "dk": "var", "t": v.get("t")})}
    iv.run()
    res = None
    for x in fn.walk():
        if x.get("k") == "Var" and x.get("n") == "res":
            res = x["d"]
    rets = [r for r in fn.walk() if r.get("k") == "ReturnStmt"]
    if res is None or not rets:
        raise AnalysisBroken("%s: result record of precalc not found" % rule)
    # quotient ranges at the stores, per flag combination known there
    quot = {}
    for flag, field, dv, md, node in blocks:
        if dv == 1:
            continue
        for x in walk(node["c"][1]):
            if x.get("k") in ("BinaryOperator", "CompoundAssignOperator") and x.get("op") in ("=", "+=") and _mkey(fn, x["c"][0])[1] == field:
                for st in iv.states_at(x) or []:
                    q = iv.eval(strip(x["c"][1]), st)        # the quotient itself, before conversion to the field's type
                    if x.get("op") == "+=":
                        prev = iv._range_of_lvalue(x["c"][0], st)
                        q = intervals.add(prev, q)
                    part = []
                    for (fl, fd, d2), k in zip(units, keys):
                        pv = st.get(k)
                        part.append(None if pv is None else (False if pv == (0, 0) else (True if pv[0] is not None and pv[0] > 0 else None)))
                    # applies to every full combination consistent with what is known at the store
                    for m in range(2 ** len(units)):
                        combo = tuple(bool(m >> (len(units) - 1 - j) & 1) for j in range(len(units)))
                        if all(p is None or p == c for p, c in zip(part, combo)):
                            old = quot.get((field, combo))
                            quot[(field, combo)] = q if old is None else intervals.join(old, q)
    seen = set()
    for st in iv.states_at(rets[-1]) or []:
        present = []
        for (flag, field, dv), k in zip(units, keys):
            v = st.get(k)
            present.append(None if v is None else (v == (0, 0) and "no") or ((v[0] is not None and v[0] > 0) and "yes") or None)
        if any(p is None for p in present):
            continue
        combo = tuple(p == "yes" for p in present)
        seen.add(combo)
        for i, (flag, field, dv) in enumerate(units):
            if not combo[i]:
                continue
            coarser = [units[j][2] for j in range(i) if combo[j]]
            bound = (min(coarser) // dv - 1) if coarser else None
            v = st.get((res, field))
            if bound is None:
                # the coarsest requested unit carries everything above it: only its sign is constrained, and that of the
                # quotient before it is stored (the stored int could only wrap for spans no pair of dates has)
                v = quot.get((field, combo))
            lo_ok = v is not None and v[0] is not None and v[0] >= 0
            hi_ok = bound is None or (v is not None and v[1] is not None and v[1] <= bound)
            what = "%s with %s" % (field, "+".join(units[j][0] for j in range(len(units)) if combo[j]))
            if lo_ok and hi_ok:
                R.ob(rule, ".%s in [0, %s]" % (what, bound if bound is not None else "inf"), True)
            else:
                R.finding(rule, fn, "range of .%s" % what, "component .%s ranges over %s; under the requested units it must stay within "
                          "[0, %s]" % (field, v, bound), rets[-1])
    R.floor(rule, "flag combinations reaching the return", len(seen), 2 ** len(units))


def _spec_groups(fn):
    """switch over spec.spfl -> list of (set of spec names, statements)"""
    out = []
    for sw in fn.switches():
        op = strip(sw["c"][0])
        if op is not None and op.get("k") == "MemberExpr" and op.get("n") == "spfl":
            for g in switch_cases(sw):
                names = {l["en"] for l in g["labels"] if l["en"] and l["en"] != "default"}
                out.append((names, g["stmts"], g.get("falls")))
    return out


def check_units(P, R, tu, blocks):
    rule = "RF-unit"
    det = tu.func("determine_durfmt")
    prt = tu.func("__strfdtdur")
    if det is None or prt is None:
        raise AnalysisBroken("%s: determine_durfmt / __strfdtdur vanished" % rule)
    R.saw(det)
    R.saw(prt)
    # spec -> flags set (following fall-through)
    dg = _spec_groups(det)
    spec_flag = {}
    for i, (names, stmts, falls) in enumerate(dg):
        flags = set()
        j = i
        while True:
            for s in dg[j][1]:
                for x in walk(s):
                    if x.get("k") == "BinaryOperator" and x.get("op") == "=" and const_of(x["c"][1]) == 1:
                        # unconditional stores only (not nested in an if)
                        d, fl = _mkey(det, x["c"][0])
                        cur = x
                        cond = False
                        while cur is not None and cur is not s:
                            cur = det.parent(cur)
                            if cur is not None and cur is not s and cur.get("k") == "IfStmt":
                                cond = True
                        if fl and not cond and s.get("k") != "IfStmt":
                            flags.add(fl)
            if dg[j][2] and j + 1 < len(dg):
                j += 1
            else:
                break
        for n in names:
            spec_flag[n] = flags
    # spec -> field printed
    spec_field = {}
    for names, stmts, falls in _spec_groups(prt):
        fields = set()
        for s in stmts:
            for c in walk(s):
                if c.get("k") == "CallExpr" and c.get("callee") == "ltostr":
                    v = call_args(c)[2]
                    for y in walk(v):
                        if y.get("k") == "MemberExpr":
                            d, fld = _mkey(prt, y)
                            if fld:
                                fields.add(fld)
                        elif y.get("k") == "DeclRefExpr" and y.get("dk") == "var":
                            # a local copy: follow its initialiser
                            for z in prt.walk():
                                if z.get("k") == "Var" and z.get("d") == y["d"] and kids(z):
                                    d, fld = _mkey(prt, kids(z)[0])
                                    if fld:
                                        fields.add(fld)
        for n in names:
            spec_field[n] = fields
    flag_block = {flag: (field, dv) for flag, field, dv, md, node in blocks}
    n = 0
    for spec, unit in SPEC_UNIT.items():
        fl = spec_flag.get(spec)
        fd = spec_field.get(spec)
        if not fl or not fd:
            raise AnalysisBroken("%s: specifier %s not found in both switches (%s, %s)" % (rule, spec, fl, fd))
        n += 1
        cands = [f_ for f_ in fl if f_ in flag_block]
        ok = False
        for f_ in cands:
            field, dv = flag_block[f_]
            if field in fd and dv == unit:
                ok = True
        if ok:
            R.ob(rule, "%s: flag %s, field %s, unit %d s agree" % (spec, sorted(cands), sorted(fd), unit), True)
        else:
            R.finding(rule, prt, "specifier %s" % spec, "%s sets %s, whose block fills %s; the specifier prints %s and counts units of %d s"
                      % (spec, sorted(fl), [(f_, flag_block[f_]) for f_ in cands], sorted(fd), unit))
    R.floor(rule, "duration specifiers", n, 8)


def check_readonly(P, R, tu):
    rule = "RF-pre-ro"
    prt = tu.func("__strfdtdur")
    pre = None
    for x in prt.walk():
        if x.get("k") == "Var" and fn_type_is(prt, x, "precalc_s"):
            pre = x["d"]
    if pre is None:
        raise AnalysisBroken("%s: the precomputed record of __strfdtdur was not found" % rule)
    writes = []
    for s in prt.walk():
        tgt = None
        if s.get("k") in ("BinaryOperator", "CompoundAssignOperator") and s.get("op", "").endswith("=") and s.get("op") not in ("==", "!=", "<=", ">="):
            tgt = s["c"][0]
        elif s.get("k") == "UnaryOperator" and s.get("op") in ("++", "--"):
            tgt = s["c"][0]
        if tgt is not None:
            d, fld = _mkey(prt, tgt)
            if d == pre and fld:
                writes.append((s, fld))
    if not writes:
        R.ob(rule, "__strfdtdur never writes the precomputed components", True)
    for s, fld in writes:
        R.finding(rule, prt, "write to pre.%s" % fld, "the print loop changes the precomputed component .%s: a specifier that occurs "
                  "twice prints two different numbers" % fld, s)
    # one sign, before the loop
    rule2 = "RF-sign"
    signs = [x for x in prt.walk() if x.get("k") == "BinaryOperator" and x.get("op") == "=" and const_of(x["c"][1]) == 45]
    loops = [x for x in prt.walk() if x.get("k") in ("ForStmt", "WhileStmt")]
    inloop = [x for x in signs if any(any(y is x for y in walk(lp)) for lp in loops)]
    if len(signs) == 1 and not inloop:
        par = prt.parent(signs[0])
        cond = None
        while par is not None:
            if par.get("k") == "IfStmt":
                cond = par["c"][0]
                break
            par = prt.parent(par)
        d, fld = (None, None)
        if cond is not None:
            for y in walk(cond):
                if y.get("k") == "MemberExpr":
                    d, fld = _mkey(prt, y)
                    if d == pre:
                        break
        if d == pre and fld == "neg":
            R.ob(rule2, "one minus sign, written before the loop from pre.neg", True)
        else:
            R.finding(rule2, prt, "sign source", "the minus sign does not depend on the sign of the total (pre.neg)", signs[0])
    else:
        R.finding(rule2, prt, "minus signs", "__strfdtdur writes %d minus signs (%d inside the loop); the rule is one leading sign"
                  % (len(signs), len(inloop)), signs[0] if signs else None)


def fn_type_is(fn, var, recname):
    t = fn.tu.types[var["t"]]
    return recname in t.get("c", "")


def check_widen(P, R):
    rule = "RF3-widen"
    n = 0
    for obj in ("ddiff-ddiff.o", "libdut_a-dt-core.o"):
        tu = P.tu(obj)
        for fn in tu.funclist:
            for x in fn.walk():
                if x.get("k") in ("BinaryOperator", "CompoundAssignOperator") and x.get("op") in ("*", "*="):
                    for cn, other in ((x["c"][0], x["c"][1]), (x["c"][1], x["c"][0])):
                        c = const_of(cn)
                        if c is not None and c >= 86400 and c % 86400 == 0 and c <= 86400 * 7 and const_of(other) is None:
                            n += 1
                            R.saw(fn)
                            t = tu.types[x["t"]]
                            site = "%s * %d" % (expr_text(strip(other))[:40], c)
                            if (t.get("w") or 0) >= 64:
                                R.ob(rule, "%s: %s computed in %d bits" % (fn.name, site, t["w"]), True)
                            else:
                                iv = Intervals(fn).run()
                                rg = iv.range_at(x, other)
                                lim = (1 << 31) // c
                                if rg is not None and rg[0] is not None and rg[1] is not None and -lim < rg[0] and rg[1] < lim:
                                    R.ob(rule, "%s: %s in 32 bits, operand within %s" % (fn.name, site, rg), True)
                                else:
                                    R.finding(rule, fn, site, "a day count is multiplied by %d in %s-bit arithmetic: the product wraps for spans "
                                              "of %d days (%d years) or more" % (c, t.get("w"), lim, lim // 365), x)
    R.floor(rule, "day-count products", n, 6)


def check_conservation(P, R, tu, blocks):
    """sign and leap second correction: on every path of precalc that fills the seconds slot,
         (1 - 2*neg) * (sum of component * unit + seconds slot)  ==  days * 86400 + seconds + correction
    as a polynomial identity (neg = [total < 0]; the summary is path complete over the request flags)"""
    rule = "RF-cons"
    import conserve
    from conserve import Poly, Summariser, Path, neg_sym
    fn = tu.func("precalc")
    sm = Summariser(fn)
    sm.lenient_if = True
    sm.maxpaths = 2048
    sm.pure_calls = {"__strf_tot_secs", "__strf_tot_days", "__strf_tot_corr"}
    body = kids(fn.body)
    start = [i for i, s_ in enumerate(body) if s_.get("k") == "ForStmt"]
    if not start:
        raise AnalysisBroken("%s: the block that forms the total in precalc was not recognised" % rule)
    stmts = [s_ for s_ in body[:start[0]] if s_.get("k") == "DeclStmt"] + body[start[0]:]
    try:
        paths = [p_ for p_ in sm.run(stmts, [Path()]) if p_.done]
    except AnalysisBroken as e:
        raise AnalysisBroken("%s: %s" % (rule, e))
    units = {field: dv for flag, field, dv, md, node in blocks}
    res = [x["d"] for x in fn.walk() if x.get("k") == "Var" and x.get("n") == "res"]
    if not res:
        raise AnalysisBroken("%s: result record not found" % rule)
    res = res[0]
    secs_field = [field for flag, field, dv, md, node in blocks if dv == 1]
    if not secs_field:
        raise AnalysisBroken("%s: seconds slot not found" % rule)
    secs_field = secs_field[0]
    secs_if = [node.get("i") for flag, field, dv, md, node in blocks if dv == 1][0]
    U = Poly.sym(("call", "__strf_tot_days", ("dur",))) * Poly.const(86400) + Poly.sym(("call", "__strf_tot_secs", ("dur",)))
    C = Poly.sym(("call", "__strf_tot_corr", ("dur",)))
    # the sign bit the routine itself computes: [total + k * correction < 0] for whichever k it uses (k = 0: the clean seconds;
    # k = 2: the whole duration with the correction in it -- they agree for every format without %r, where the correction is 0)
    allsyms = set()
    for p_ in paths:
        if isinstance(p_.ret, dict):
            for v in p_.ret.values():
                if hasattr(v, "symbols"):
                    allsyms.update(v.symbols())
        # a routine that branches on the sign (if / else instead of two conditional expressions) has the bit fixed per path
        allsyms.update(k_[1] for k_ in p_.env if isinstance(k_, tuple) and len(k_) == 2 and k_[0] == "fixed")
    B = None
    for k_ in (0, 2, 1):
        cand = neg_sym(U + C * Poly.const(k_))
        if any(sy in allsyms for sy in cand.symbols()):
            B = cand
            break
    if B is None:
        B = neg_sym(U)
    sign = Poly.const(1) - B * Poly.const(2)
    n = good = 0
    bad = None
    for p_ in paths:
        r = p_.ret
        if not isinstance(r, dict) or secs_field not in r or (secs_if, 1) not in getattr(p_, "taken", []):
            continue          # the seconds slot was not requested on this path: the rest is dropped (truncation)
        # zero-initialised record: members never written read as 0
        total = Poly()
        for field, unit in units.items():
            v = r.get(field)
            if v is None:
                continue
            for sy in list(v.symbols()):
                if isinstance(sy, tuple) and sy[0] == "in" and isinstance(sy[1], tuple) and sy[1][0] == res:
                    v = v.subst(sy, Poly())
            total = total + v * Poly.const(unit)
        n += 1
        sign_p = sign
        for k_, v_ in p_.env.items():
            if isinstance(k_, tuple) and len(k_) == 2 and k_[0] == "fixed":
                sign_p = conserve.deep_subst(sign_p, k_[1], v_)
        diff = sign_p * total - (U + C)
        if not diff:
            good += 1
        elif bad is None:
            bad = diff
    if n == 0:
        raise AnalysisBroken("%s: no path of precalc fills the seconds slot" % rule)
    if good == n:
        R.ob(rule, "precalc: sign * (components * units + seconds slot) == days*86400 + seconds + correction on all %d paths with a seconds slot" % n, True)
    else:
        R.finding(rule, fn, "signed total", "on %d of %d paths that fill the seconds slot the signed recombination of the components "
                  "differs from days*86400 + seconds + correction by %s: the leap second correction (or a component) enters with "
                  "the wrong sign for negative durations" % (n - good, n, bad.text(sm.names)[:260]))
    R.floor(rule, "paths with a seconds slot", n, 8)


def check_handshake(P, R):
    """the day borrow of dt_ddiff: when the time-of-day difference has the other sign than the date difference, one day is taken
    from the date part (under a flag) and dt_dtdiff credits 86400 s to the time part if the flag comes back in res.fix.  In every
    case of dt_ddiff that borrows, the flag must survive to the return: res.fix = flag after the last whole assignment of res."""
    rule = "RF-handshake"
    tu = P.tu("libdut_a-date-core.o")
    dtu = P.tu("libdut_a-dt-core.o")
    fn = tu.func("dt_ddiff")
    cons = dtu.func("dt_dtdiff")
    if fn is None or cons is None:
        raise AnalysisBroken("dt_ddiff / dt_dtdiff vanished")
    R.saw(fn)
    R.saw(cons)
    res = None
    for x in fn.walk():
        if x.get("k") == "Var" and "dt_ddur_s" in fn.tu.types[x["t"]].get("c", ""):
            res = x["d"]
    sws = list(fn.switches())
    if res is None or not sws:
        raise AnalysisBroken("%s: result record / duration type switch of dt_ddiff not found" % rule)
    n = 0
    for g in switch_cases(sws[0]):
        names = [l["en"] for l in g["labels"] if l["en"]]
        flat = []
        for s_ in g["stmts"]:
            flat += kids(s_) if s_.get("k") == "CompoundStmt" else [s_]
        # a borrow: if (F) { operand = add_d(operand, ...) }
        flag = None
        for s_ in flat:
            if s_.get("k") == "IfStmt":
                c = strip(s_["c"][0])
                if c is not None and c.get("k") == "DeclRefExpr" and any(
                        y.get("k") == "CallExpr" and (y.get("callee") or "").endswith("_add_d") for y in walk(s_["c"][1])):
                    flag = c["d"]
                    fname = c.get("n")
        if flag is None:
            continue
        n += 1
        last_whole = -1
        set_after = False
        for i, s_ in enumerate(flat):
            if s_.get("k") == "BinaryOperator" and s_.get("op") == "=":
                l = strip(s_["c"][0])
                if l is not None and l.get("k") == "DeclRefExpr" and l.get("d") == res:
                    last_whole = i
                    set_after = False
                elif l is not None and l.get("k") == "MemberExpr" and l.get("n") == "fix":
                    b, path = member_path(l)
                    r = strip(s_["c"][1])
                    if b is not None and b.get("d") == res and r is not None and r.get("k") == "DeclRefExpr" and r.get("d") == flag:
                        set_after = i > last_whole
        if set_after:
            R.ob(rule, "dt_ddiff %s: the borrow flag reaches the caller in res.fix" % "/".join(names), True)
        else:
            R.finding(rule, fn, "case %s" % "/".join(names), "this case borrows a day under `%s` but the flag does not survive to the return "
                      "(res is assigned as a whole afterwards and .fix is not set from it): dt_dtdiff never credits the borrowed day and "
                      "the printed components fall one day short" % fname, g["stmts"][0] if g["stmts"] else None)
    R.floor(rule, "borrowing cases of dt_ddiff", n, 4)
    # consumer: in the branch of dt_dtdiff that calls dt_ddiff with the requested calendar type, the time part becomes
    #   flip:  dt1 = neg ? -dt : dt              (regardless of the borrow)
    #   then:  fix ? dt1 - sgn(dt1) * 86400 : dt1
    # checked as a polynomial identity on every path of that statement list
    import conserve
    from conserve import Poly, Summariser, Path, nz_sym, neg_sym
    branch = None
    for x in cons.walk():
        if x.get("k") == "IfStmt":
            then = x["c"][1]
            if then is not None and then.get("k") == "CompoundStmt":
                direct = [s_ for s_ in kids(then)]
                if any(y.get("k") == "CallExpr" and y.get("callee") == "dt_ddiff" and const_of(call_args(y)[0]) is None
                       for s_ in direct for y in walk(s_)) and not any(s_.get("k") == "IfStmt" and any(
                           y.get("k") == "CallExpr" and y.get("callee") == "dt_ddiff" for y in walk(s_)) for s_ in direct):
                    branch = then
    if branch is None:
        raise AnalysisBroken("%s: the calendar-duration branch of dt_dtdiff was not recognised" % rule)
    dtv = None
    for x in cons.walk():
        if x.get("k") == "Var" and x.get("n") == "dt":
            dtv = x["d"]
    resv = [x["d"] for x in cons.walk() if x.get("k") == "Var" and x.get("n") == "res"]
    if dtv is None or not resv:
        raise AnalysisBroken("%s: variables of dt_dtdiff not recognised" % rule)
    resv = resv[0]
    sm = Summariser(cons)
    sm.lenient_if = True
    try:
        paths = sm.run(kids(branch), [Path()])
    except AnalysisBroken as e:
        raise AnalysisBroken("%s: %s" % (rule, e))
    D = conserve.inp(dtv)
    N = nz_sym(conserve.inp((resv, "neg")))
    F = nz_sym(conserve.inp((resv, "d.fix")))
    one = Poly.const(1)
    D1 = (one - N) * D + N * (-D)
    Pp, Qq = neg_sym(-D1), neg_sym(D1)
    day = Poly.const(86400)
    comp = Pp * (D1 - day) + (one - Pp) * (Qq * (D1 + day))
    expect = (one - F) * D1 + F * comp
    # where dt1 is neither positive nor negative it is 0: writing 0 or leaving dt1 alone is the same thing
    comp_b = comp + (one - Pp) * (one - Qq) * D1
    expect_b = (one - F) * D1 + F * comp_b
    okc = bool(paths)
    why = None
    for p_ in paths:
        got = p_.env.get(dtv, D)
        exp, exp_b = expect, expect_b
        for kk, vv in p_.env.items():
            if isinstance(kk, tuple) and kk and kk[0] == "fixed":
                # also inside the arguments of the other sign symbols (the sign of the flipped difference depends on the flip)
                exp, exp_b = conserve.deep_subst(exp, kk[1], vv), conserve.deep_subst(exp_b, kk[1], vv)
        if (got - exp) and (got - exp_b):
            okc = False
            why = got - exp
    if okc:
        R.ob(rule, "dt_dtdiff: time part = (neg ? -dt : dt), then minus sgn * 86400 iff the date part borrowed a day (all %d paths)" % len(paths), True)
    else:
        R.finding(rule, cons, "consumer", "the time part dt_dtdiff stores next to a calendar duration is not `flip the sign if the date part "
                  "is negative, then take one day off its magnitude iff a day was borrowed`; it differs by %s"
                  % (why.text(sm.names)[:240] if why is not None else "?"), branch)


def check(P, R, tier):
    import diffout
    nout = diffout.run_parallel(R, P, "RF2-out", jobs=8)
    R.floor("RF2-out", "decoded (pair of inputs, format) points of what ddiff prints", nout, 6000)
    check_handshake(P, R)
    tu = P.tu("ddiff-ddiff.o")
    us, blocks = check_cascade(P, R, tu)
    check_ranges(P, R, tu, us, blocks)
    check_conservation(P, R, tu, blocks)
    check_units(P, R, tu, blocks)
    check_readonly(P, R, tu)
    check_widen(P, R)
    # the years / months / weeks a format asks for come from the calendar differences: decoded over their whole domain
    import diffdecode
    dtu = P.tu("libdut_a-date-core.o")
    n = diffdecode.check_all(R, dtu, "RF2-diff")
    R.floor("RF2-diff", "decoded points of the year/day, year/month/day and year/week/day differences", n, 3000000)


LEVEL = ("Decides the refinement rule structurally for all durations and all subsets of week / day / hour / minute / second: the "
         "cascade divides and reduces by the same, strictly decreasing constants after taking the absolute value, so the printed "
         "components recombine to the total; interval analysis partitioned by the request flags proves every refined component "
         "inside [0, coarser/own - 1] for each of the 16 flag combinations; the constants are the seconds of the unit whose "
         "specifier requests and prints that component; the print loop does not modify the components and writes one sign; "
         "day-count products are 64-bit.  The components of formats that ask for years, months or weeks with days come from the "
         "calendar differences, which are decoded over their whole domain (RF2-diff): years/months/weeks + days recombine to the "
         "later date.  The split of months into years / quarters is not decided here.")
RULE = "obligation = one cascade block, one (flag combination, component) range, one specifier agreement, one write / sign / product site"
ASSUME = ["dt_dtdiff delivers the difference as days + seconds (C05)", "the leap second correction is attributed to the seconds slot only"]
