"""Fact loading, AST/CFG helpers, reporting and verdict protocol.

Everything here works on the JSON fact bases written by engine/dutfacts (one
per translation unit of /repo's build).  No dateutils code is ever executed.
"""
import json
import os
import shutil
import subprocess
import sys
import tempfile
import time
from concurrent.futures import ThreadPoolExecutor

VERIF = os.path.dirname(os.path.dirname(os.path.abspath(__file__)))
sys.path.insert(0, os.path.join(VERIF, "engine"))
import compdb  # noqa: E402

REPO = os.environ.get("VERIF_REPO", "/repo")
DUTFACTS = os.path.join(VERIF, "build", "dutfacts")


class AnalysisBroken(Exception):
    """An anchor vanished / a shape is no longer recognised / a TU failed to parse.
    Reported as exit 2: neither a pass nor a violation."""


# --------------------------------------------------------------------------- AST helpers
CASTS = ("ImplicitCastExpr", "CStyleCastExpr")


def kids(n):
    return [c for c in (n.get("c") or []) if c is not None]


def walk(n):
    """pre-order over a node and its descendants"""
    if n is None:
        return
    stack = [n]
    while stack:
        x = stack.pop()
        yield x
        cs = x.get("c")
        if cs:
            for c in reversed(cs):
                if c is not None:
                    stack.append(c)


def strip(n):
    """look through casts and __builtin_expect(x, c)"""
    while n is not None:
        k = n.get("k")
        if k in CASTS and n.get("c"):
            n = n["c"][0]
        elif k == "CallExpr" and n.get("callee") in ("__builtin_expect",) and len(n.get("c", [])) >= 2:
            n = n["c"][1]
        else:
            break
    return n


def callee_name(n):
    if n.get("k") != "CallExpr":
        return None
    return n.get("callee")


def call_args(n):
    return (n.get("c") or [])[1:]


def member_path(n):
    """MemberExpr chain -> (base_node, [names]) skipping anonymous members and casts/derefs.
    `p->x.y` -> (DeclRef p, ['x','y'])."""
    names = []
    n = strip(n)
    while n is not None:
        k = n.get("k")
        if k == "MemberExpr":
            if n.get("n"):
                names.append(n["n"])
            n = strip(n["c"][0])
        elif k == "UnaryOperator" and n.get("op") == "*":
            n = strip(n["c"][0])
        elif k == "ArraySubscriptExpr":
            names.append("[]")
            n = strip(n["c"][0])
        else:
            break
    names.reverse()
    return n, names


def base_name(n):
    b, _ = member_path(n)
    if b is not None and b.get("k") == "DeclRefExpr":
        return b.get("n")
    return None


def const_of(n):
    n2 = n
    while n2 is not None:
        if "v" in n2:
            return n2["v"]
        if n2.get("k") in CASTS and n2.get("c"):
            n2 = n2["c"][0]
        else:
            return None
    return None


def expr_text(n, depth=0):
    """compact C-like rendering for reports"""
    if n is None:
        return ""
    k = n.get("k")
    if depth > 12:
        return "..."
    c = n.get("c") or []
    if k in CASTS:
        return expr_text(c[0], depth + 1) if c else ""
    if k == "DeclRefExpr":
        return n.get("n", "?")
    if k in ("IntegerLiteral",):
        return str(n.get("v"))
    if k == "CharacterLiteral":
        v = n.get("v", 0)
        return repr(chr(v)) if 32 <= v < 127 else "'\\x%02x'" % v
    if k == "StringLiteral":
        return json.dumps(n.get("s", ""))
    if k == "MemberExpr":
        inner = expr_text(c[0], depth + 1) if c else ""
        if not n.get("n"):
            return inner
        return inner + ("->" if n.get("arrow") else ".") + n["n"]
    if k in ("BinaryOperator", "CompoundAssignOperator"):
        return "(%s %s %s)" % (expr_text(c[0], depth + 1), n.get("op"), expr_text(c[1], depth + 1))
    if k == "UnaryOperator":
        if n.get("postfix"):
            return expr_text(c[0], depth + 1) + n.get("op", "")
        return n.get("op", "") + expr_text(c[0], depth + 1)
    if k == "CallExpr":
        return "%s(%s)" % (expr_text(c[0], depth + 1), ", ".join(expr_text(a, depth + 1) for a in c[1:]))
    if k == "ArraySubscriptExpr":
        return "%s[%s]" % (expr_text(c[0], depth + 1), expr_text(c[1], depth + 1))
    if k == "ConditionalOperator":
        return "(%s ? %s : %s)" % tuple(expr_text(x, depth + 1) for x in c[:3])
    if k == "UnaryExprOrTypeTraitExpr":
        return "sizeof(..)"
    return k or "?"


# --------------------------------------------------------------------------- program model
class Func:
    def __init__(self, tu, d):
        self.tu = tu
        self.d = d
        self.name = d["name"]
        self.file = tu.filename(d["file"])
        self.line = d["line"]
        self.endline = d["endline"]
        self.static = d.get("static", False)
        self.body = d.get("body")
        self.params = d.get("params", [])
        self._nodes = None
        self._parent = None
        self._cfg = None

    @property
    def nodes(self):
        if self._nodes is None:
            self._nodes, self._parent = {}, {}
            for n in walk(self.body):
                if "i" in n:
                    self._nodes[n["i"]] = n
                for c in kids(n):
                    if "i" in c:
                        self._parent[c["i"]] = n
                    elif c.get("k") == "Var":
                        c["_parent"] = n
                        for cc in kids(c):
                            if "i" in cc:
                                self._parent[cc["i"]] = c
        return self._nodes

    def parent(self, n):
        self.nodes
        if "i" in n:
            return self._parent.get(n["i"])
        return n.get("_parent")

    def walk(self):
        return walk(self.body)

    def calls(self, name=None):
        for n in self.walk():
            if n.get("k") == "CallExpr" and (name is None or n.get("callee") == name):
                yield n

    @property
    def cfg(self):
        if self._cfg is None and self.d.get("cfg"):
            self._cfg = CFG(self, self.d["cfg"])
        return self._cfg

    def where(self, n=None):
        return "%s:%s" % (os.path.relpath(self.file, REPO) if self.file.startswith(REPO) else self.file,
                          n.get("l") if n else self.line)

    def type_of(self, n):
        t = n.get("t")
        return self.tu.types[t] if t is not None else None

    def switches(self):
        for n in self.walk():
            if n.get("k") == "SwitchStmt":
                yield n


def switch_cases(sw):
    """-> list of (labels, stmts) groups for a switch whose body is a CompoundStmt.
    labels: list of dicts {en, lo, hi} or 'default'.  Consecutive labels share their statements;
    fall-through between non-empty groups is flagged by the `falls` attribute of the group."""
    body = sw["c"][1]
    groups = []
    cur_labels, cur_stmts = [], []

    def flush():
        nonlocal cur_labels, cur_stmts
        if cur_labels:
            groups.append({"labels": cur_labels, "stmts": cur_stmts})
        cur_labels, cur_stmts = [], []

    def unwrap(s):
        # CaseStmt children: lhs [rhs] sub ; DefaultStmt: sub ; LabelStmt: sub
        labels = []
        while s is not None and s.get("k") in ("CaseStmt", "DefaultStmt"):
            if s["k"] == "CaseStmt":
                labels.append({"en": s.get("en"), "lo": s.get("lo"), "hi": s.get("hi", s.get("lo")), "l": s.get("l"), "node": s})
            else:
                labels.append({"en": "default", "lo": None, "hi": None, "l": s.get("l"), "node": s})
            c = kids(s)
            s = c[-1] if c else None
            if s is not None and labels and s.get("k") not in ("CaseStmt", "DefaultStmt"):
                break
        return labels, s

    stmts = kids(body) if body.get("k") == "CompoundStmt" else [body]
    for s in stmts:
        if s.get("k") in ("CaseStmt", "DefaultStmt"):
            labels, sub = unwrap(s)
            if cur_stmts:
                # previous group had statements: does it fall through?
                falls = not _ends_with_jump(cur_stmts)
                prev_labels, prev_stmts = cur_labels, cur_stmts
                groups.append({"labels": prev_labels, "stmts": prev_stmts, "falls": falls})
                cur_labels, cur_stmts = [], []
            cur_labels = cur_labels + labels
            if sub is not None:
                cur_stmts.append(sub)
        else:
            cur_stmts.append(s)
    if cur_labels:
        groups.append({"labels": cur_labels, "stmts": cur_stmts, "falls": False})
    return groups


def switch_handles(sw, v):
    """Does the switch have an explicit case for value v that does more than drop into the default group?
    `case A: case B: default: stmt` (labels sharing one statement) counts as explicit handling of A and B;
    `case A: ; default: stmt` (empty statement, then fall-through into default) does not."""
    groups = switch_cases(sw)
    for gi, g in enumerate(groups):
        if not any(l["lo"] is not None and l["lo"] <= v <= l["hi"] for l in g["labels"]):
            continue
        j = gi
        while True:
            gj = groups[j]
            real = [s for s in gj["stmts"] if s.get("k") != "NullStmt"]
            if real:
                # statements of its own: handled, unless this is a group it merely fell into that carries `default`
                if j != gi and any(l["en"] == "default" for l in gj["labels"]):
                    return False
                return True
            if any(l["en"] == "default" for l in gj["labels"]) and j != gi:
                return False
            if any(l["en"] == "default" for l in gj["labels"]) and j == gi:
                return True
            if not gj.get("falls", True) or j + 1 >= len(groups):
                return True
            j += 1
    return False


def _ends_with_jump(stmts):
    if not stmts:
        return False
    last = stmts[-1]
    k = last.get("k")
    if k in ("BreakStmt", "ReturnStmt", "GotoStmt", "ContinueStmt"):
        return True
    if k == "CompoundStmt":
        return _ends_with_jump(kids(last))
    if k == "CallExpr" and last.get("callee") in ("abort", "exit", "__builtin_unreachable"):
        return True
    return False


class CFG:
    def __init__(self, fn, d):
        self.fn = fn
        self.entry = d["entry"]
        self.exit = d["exit"]
        self.blocks = {b["b"]: b for b in d["blocks"]}
        self.succs = {b: [s for s in blk["s"] if s is not None] for b, blk in self.blocks.items()}
        self.preds = {b: [] for b in self.blocks}
        for b, ss in self.succs.items():
            for s in ss:
                self.preds[s].append(b)
        self._dom = None
        self._pdom = None
        self._stmt_block = None

    def stmt_block(self, node_id):
        if self._stmt_block is None:
            self._stmt_block = {}
            for b, blk in self.blocks.items():
                for idx, e in enumerate(blk["e"]):
                    if e >= 0 and e not in self._stmt_block:
                        self._stmt_block[e] = (b, idx)
        return self._stmt_block.get(node_id)

    def _domtree(self, entry, succs, preds):
        # iterative dominator sets (graphs are tiny)
        nodes = list(self.blocks)
        reach = set()
        st = [entry]
        while st:
            x = st.pop()
            if x in reach:
                continue
            reach.add(x)
            st.extend(succs[x])
        dom = {n: set(reach) for n in reach}
        dom[entry] = {entry}
        changed = True
        while changed:
            changed = False
            for n in nodes:
                if n == entry or n not in reach:
                    continue
                ps = [p for p in preds[n] if p in reach]
                if not ps:
                    continue
                new = set.intersection(*(dom[p] for p in ps)) | {n}
                if new != dom[n]:
                    dom[n] = new
                    changed = True
        return dom

    @property
    def dom(self):
        if self._dom is None:
            self._dom = self._domtree(self.entry, self.succs, self.preds)
        return self._dom

    @property
    def pdom(self):
        if self._pdom is None:
            self._pdom = self._domtree(self.exit, self.preds, self.succs)
        return self._pdom

    def dominates(self, a, b):
        """block a dominates block b"""
        return b in self.dom and a in self.dom[b]

    def postdominates(self, a, b):
        return b in self.pdom and a in self.pdom[b]

    def reachable_from(self, b, avoid=()):
        seen, st = set(), [b]
        while st:
            x = st.pop()
            if x in seen or x in avoid:
                continue
            seen.add(x)
            st.extend(self.succs[x])
        return seen


class TU:
    def __init__(self, unit, path):
        self.unit = unit
        with open(path) as f:
            d = json.load(f)
        self.d = d
        self.dir = unit["dir"]
        self.main = os.path.normpath(os.path.join(unit["dir"], unit["src"]))
        self.obj = unit["obj"]
        self.errors = d.get("errors", 0)
        self.files = [self._norm(x) for x in d["files"]]
        self.types = d["types"]
        self.functions = {}
        self.funclist = []
        for fd in d["functions"]:
            f = Func(self, fd)
            self.funclist.append(f)
            self.functions.setdefault(f.name, f)
        self.globals = d["globals"]
        self.records = d["records"]
        self.recs_by_id = {r["d"]: r for r in self.records}
        self.enums = d["enums"]
        self.macros = d["macros"]
        self.typedefs = d["typedefs"]
        self.fdecls = d.get("fdecls", [])

    def _norm(self, f):
        if not os.path.isabs(f):
            f = os.path.join(self.dir, f)
        return os.path.normpath(f)

    def filename(self, idx):
        return self.files[idx]

    def func(self, name):
        return self.functions.get(name)

    def enum_items(self, name):
        for e in self.enums:
            if e.get("name") == name or e.get("tdname") == name:
                return e["items"]
        return None

    def enum_value(self, item):
        for e in self.enums:
            for n, v in e["items"]:
                if n == item:
                    return v
        return None

    def record(self, name):
        for r in self.records:
            if r.get("name") == name or r.get("tdname") == name:
                return r
        return None

    def global_var(self, name, func=None):
        for g in self.globals:
            if g["name"] == name and (func is None or g.get("func") == func) and g.get("def"):
                return g
        for g in self.globals:
            if g["name"] == name and (func is None or g.get("func") == func):
                return g
        return None

    def macro(self, name):
        r = None
        for m in self.macros:
            if m["name"] == name:
                r = m
        return r

    def flatten_record(self, rec, base=0, prefix=""):
        """-> list of (path, bitoffset, bitwidth, signed) for scalar leaves incl. anonymous members"""
        out = []
        for f in rec.get("fields", []):
            nm = f["n"]
            path = prefix + nm if not nm else (prefix + nm)
            off = base + f["off"]
            sub = self.recs_by_id.get(f.get("rec")) if f.get("rec") is not None else None
            if sub is not None and self.types[f["t"]].get("arr") is None:
                out += self.flatten_record(sub, off, (path + ".") if nm else prefix)
            elif nm:
                out.append((path, off, f.get("bw", f.get("sz")), f.get("signed", False)))
            # an unnamed bit-field is padding: no leaf (the project keeps flags of an enclosing type in such padding)
        return out


class Program:
    def __init__(self, tus):
        self.tus = tus
        self.by_obj = {t.obj: t for t in tus}

    def tu(self, obj_or_src):
        """lookup by object name ('libdut_a-date-core.o') or by unique source basename ('dseq.c')"""
        if obj_or_src in self.by_obj:
            return self.by_obj[obj_or_src]
        c = [t for t in self.tus if os.path.basename(t.main) == obj_or_src]
        if not c:
            raise AnalysisBroken("translation unit %s is not part of the build" % obj_or_src)
        # prefer the library flavour (libdut_a-*)
        c.sort(key=lambda t: (not t.obj.startswith("libdut"), t.obj))
        return c[0]

    def func(self, tu, name):
        t = self.tu(tu)
        f = t.func(name)
        if f is None:
            raise AnalysisBroken("anchor function %s not found in %s" % (name, tu))
        return f

    def all_functions(self, primary_only=True):
        """each function body once: for sources compiled into several objects take the libdut/first flavour"""
        seen = set()
        for t in self.tus:
            for f in t.funclist:
                key = (f.file, f.name, f.line)
                if primary_only and key in seen:
                    continue
                seen.add(key)
                yield f


def extract(repo=None, workdir=None, regen=True):
    """harvest the build, regenerate generated sources, run dutfacts on every unit -> Program"""
    repo = repo or REPO
    if not os.path.exists(DUTFACTS):
        raise AnalysisBroken("extractor %s not built (run MANIFEST.setup_cmd)" % DUTFACTS)
    try:
        if regen:
            compdb.regenerate_built_sources(repo)
        units = compdb.harvest(repo)
    except compdb.CompdbError as e:
        raise AnalysisBroken(str(e))
    if len(units) < 30:
        raise AnalysisBroken("only %d compile units harvested from the build (expected >= 30)" % len(units))
    own = workdir is None
    if own:
        os.makedirs(os.path.join(VERIF, ".work"), exist_ok=True)
        workdir = tempfile.mkdtemp(prefix="facts-", dir=os.path.join(VERIF, ".work"))

    def one(u):
        out = os.path.join(workdir, u["obj"] + ".json")
        p = subprocess.run([DUTFACTS, out, u["src"], "--"] + u["flags"], cwd=u["dir"],
                           stdout=subprocess.PIPE, stderr=subprocess.PIPE, text=True)
        return u, out, p.returncode, p.stderr[-3000:]

    tus = []
    try:
        with ThreadPoolExecutor(max_workers=16) as ex:
            res = list(ex.map(one, units))
        for u, out, rc, err in res:
            if rc != 0 or not os.path.exists(out):
                raise AnalysisBroken("unit %s/%s failed to parse: %s" % (u["dir"], u["src"], err.strip()[-800:]))
            t = TU(u, out)
            if t.errors:
                raise AnalysisBroken("unit %s had %d compile errors" % (u["src"], t.errors))
            tus.append(t)
    finally:
        if own:
            shutil.rmtree(workdir, ignore_errors=True)
    return Program(tus)


# --------------------------------------------------------------------------- reporting
class Finding:
    def __init__(self, rule, func, site, msg, file=None, line=None, detail=None):
        self.rule = rule          # e.g. "RF7a"
        self.func = func          # function name or '-' for data
        self.site = site          # stable site descriptor (no line numbers)
        self.msg = msg
        self.file = file
        self.line = line
        self.detail = detail or {}

    def key(self):
        return (self.rule, self.func, self.site)

    def to_json(self):
        return {"rule": self.rule, "function": self.func, "site": self.site, "message": self.msg,
                "file": self.file, "line": self.line, "detail": self.detail}


class Report:
    """collects obligations (things a rule decided) and findings for one property check"""

    def __init__(self, prop):
        self.prop = prop
        self.obligations = []   # (rule, site, ok)
        self.findings = []
        self.analysed = {"units": 0, "functions": set(), "rules": {}}
        self.samples = []
        self.notes = []
        self.exceptions = []
        self.floor_failures = []

    def ob(self, rule, site, ok=True, sample=None):
        self.obligations.append((rule, site, ok))
        self.analysed["rules"][rule] = self.analysed["rules"].get(rule, 0) + 1
        if sample is not None and len(self.samples) < 40:
            self.samples.append(sample)

    def finding(self, rule, fn, site, msg, node=None, file=None, line=None, detail=None):
        if isinstance(fn, Func):
            file = file or fn.where(node).split(":")[0]
            line = line or (node.get("l") if node else fn.line)
            fname = fn.name
        else:
            fname = fn or "-"
        self.findings.append(Finding(rule, fname, site, msg, file, line, detail))
        self.obligations.append((rule, "%s %s" % (fname, site), False))
        self.analysed["rules"][rule] = self.analysed["rules"].get(rule, 0) + 1

    def saw(self, fn):
        self.analysed["functions"].add((fn.file, fn.name) if isinstance(fn, Func) else fn)

    def floor(self, rule, what, got, need):
        """instance floors guard against vacuous passes; they are enforced at the end of the run and only when the
        run would otherwise pass (a violation already found is reported as such)"""
        if got < need:
            self.floor_failures.append("%s: %s matched %d sites, confirmed floor is %d — the rule no longer sees its instances"
                                       % (rule, what, got, need))


def load_known_findings():
    p = os.path.join(VERIF, "known_findings.json")
    if not os.path.exists(p):
        return {"known": [], "fixed": []}
    with open(p) as f:
        return json.load(f)


def finish(report, tier, t0, level_text, rule_text, assumptions, program=None):
    """apply known findings, write evidence + replay files, print verdict, return exit code"""
    prop = report.prop
    kf = load_known_findings()
    known = {(k["rule"], k["function"], k["site"]): k for k in kf.get("known", []) if k["property"] == prop}
    viol, knownhits = [], []
    for f in report.findings:
        if f.key() in known:
            knownhits.append((f, known[f.key()]))
        else:
            viol.append(f)
    if report.floor_failures and not viol:
        raise AnalysisBroken("; ".join(report.floor_failures))
    evdir = os.environ.get("VERIF_EVIDENCE_DIR") or os.path.join(VERIF, "evidence")      # self-test runs write elsewhere
    os.makedirs(os.path.join(evdir, "replay"), exist_ok=True)
    # remove stale replay files of this property
    for fn in os.listdir(os.path.join(evdir, "replay")):
        if fn.startswith(prop + "-"):
            os.unlink(os.path.join(evdir, "replay", fn))
    lines = []
    for f, k in knownhits:
        lines.append("KNOWN-FINDING: property=%s %s %s %s: %s" % (prop, f.rule, f.func, f.site, k.get("what", f.msg)))
    for i, f in enumerate(viol):
        rp = os.path.join(evdir, "replay", "%s-%d.json" % (prop, i))
        with open(rp, "w") as fh:
            json.dump({"property": prop, "tier": tier, **f.to_json()}, fh, indent=1)
        lines.append("VIOLATION property=%s replay=%s" % (prop, rp))
        lines.append("  %s %s:%s in %s [%s]: %s" % (f.rule, f.file, f.line, f.func, f.site, f.msg))
    nob = len(report.obligations)
    ndis = sum(1 for o in report.obligations if o[2])
    distinct = len({(o[0], o[1]) for o in report.obligations})
    ev = {
        "property_id": prop,
        "tier": tier,
        "seed": int(os.environ.get("VERIF_SEED", "0") or 0),
        "level": "other",
        "coverage": {
            "explanation": level_text,
            "rule": rule_text,
            "evaluations": nob,
            "distinct_nontrivial": distinct,
            "obligations": nob,
            "discharged": ndis,
            "units_parsed": len(program.tus) if program else 0,
            "functions_analysed": len(report.analysed["functions"]),
            "rule_instances": report.analysed["rules"],
            "samples": report.samples[:40] or ["(none)"],
            "known_findings_matched": ["%s %s %s" % f.key() for f, _ in knownhits],
            "accepted_exceptions": report.exceptions,
            "notes": report.notes,
            "self_test": getattr(report, "selftest", None) or "quick tier: not run (thorough tier applies every seeded change and reverted fix of this property to a scratch copy and requires a violation)",
            "exhaustive": True,
        },
        "assumptions": assumptions,
        "wall_s": round(time.time() - t0, 3),
        "violations": len(viol),
    }
    with open(os.path.join(evdir, prop + ".json"), "w") as fh:
        json.dump(ev, fh, indent=1)
    print("property %s tier=%s: %d units, %d functions, %d obligations (%d discharged), %d known findings, %d violations"
          % (prop, tier, ev["coverage"]["units_parsed"], ev["coverage"]["functions_analysed"], nob, ndis,
             len(knownhits), len(viol)))
    for r, c in sorted(report.analysed["rules"].items()):
        print("  rule %-8s %d sites" % (r, c))
    for ln in lines:
        print(ln)
    return 1 if viol else 0


# --------------------------------------------------------------------------- call graph / effects
class CallGraph:
    """Whole-program call graph over function bodies.  Keys are Func objects (one per body per TU).
    A direct call resolves to the body in the same TU if there is one, else to the (unique) external
    definition by name.  A function whose address is taken as a call argument, initialiser or
    assignment inside F counts as callable from F (covers `__setlocale(ln, lz, set_il)`)."""

    def __init__(self, program, exclude_objs=()):
        self.program = program
        self.ext = {}
        self.tus = [t for t in program.tus if t.obj not in exclude_objs]
        for t in self.tus:
            # prefer the libdut flavour for externals
            for f in t.funclist:
                if not f.static:
                    cur = self.ext.get(f.name)
                    if cur is None or (not cur.tu.obj.startswith("libdut") and t.obj.startswith("libdut")):
                        self.ext[f.name] = f
        self._edges = {}

    def resolve(self, tu, name):
        f = tu.functions.get(name)
        if f is not None:
            return f
        return self.ext.get(name)

    def edges(self, f):
        """-> list of (callee Func or None, callee name, node, kind) for direct calls and address-taken functions"""
        if f in self._edges:
            return self._edges[f]
        out = []
        called_refs = set()
        for n in f.walk():
            if n.get("k") == "CallExpr":
                nm = n.get("callee")
                if nm:
                    out.append((self.resolve(f.tu, nm), nm, n, "call"))
                    c0 = strip(n["c"][0])
                    if c0 is not None and "i" in c0:
                        called_refs.add(c0["i"])
                else:
                    out.append((None, None, n, "indirect"))
        for n in f.walk():
            if n.get("k") == "DeclRefExpr" and n.get("dk") == "func" and n.get("i") not in called_refs:
                out.append((self.resolve(f.tu, n["n"]), n["n"], n, "addr"))
        self._edges[f] = out
        return out

    def reachable(self, roots, stop=()):
        seen, st = [], list(roots)
        seenset = set()
        while st:
            f = st.pop()
            if f is None or f in seenset or f.name in stop:
                continue
            seenset.add(f)
            seen.append(f)
            for g, nm, n, kind in self.edges(f):
                if g is not None and g not in seenset:
                    st.append(g)
        return seen

    def callers_of(self, name):
        """all (caller Func, node) with a direct call to `name`, over every TU (each body once)"""
        out, seen = [], set()
        for t in self.tus:
            for f in t.funclist:
                key = (f.file, f.name, f.line)
                if key in seen:
                    continue
                seen.add(key)
                for n in f.calls(name):
                    out.append((f, n))
        return out


def global_accesses(f):
    """-> list of (name, 'r'|'w'|'rw'|'addr', node) for every reference to a variable with static storage"""
    out = []
    f.nodes
    for n in f.walk():
        if n.get("k") != "DeclRefExpr" or n.get("dk") != "gvar":
            continue
        # climb while we stay inside the same object (member/subscript chain)
        cur, par = n, f.parent(n)
        while par is not None:
            if par.get("k") in ("MemberExpr", "ArraySubscriptExpr") and kids(par)[0] is cur:
                cur, par = par, f.parent(par)
                continue
            # element access of an array object: arr[i] is (decay(arr))[i]
            if par.get("k") == "ImplicitCastExpr" and par.get("ck") == "ArrayToPointerDecay":
                gp = f.parent(par)
                if gp is not None and gp.get("k") == "ArraySubscriptExpr" and kids(gp)[0] is par:
                    cur, par = gp, f.parent(gp)
                    continue
            break
        mode = "r"
        if par is not None:
            k = par.get("k")
            c = kids(par)
            if k == "BinaryOperator" and par.get("op") == "=" and c and c[0] is cur:
                mode = "w"
            elif k == "CompoundAssignOperator" and c and c[0] is cur:
                mode = "rw"
            elif k == "UnaryOperator" and par.get("op") in ("++", "--"):
                mode = "rw"
            elif k == "UnaryOperator" and par.get("op") == "&":
                mode = "addr"
            elif k == "ImplicitCastExpr" and par.get("ck") == "ArrayToPointerDecay":
                mode = "addr"
        # writing through a pointer-typed global's subscript is not a write of the global itself
        if mode in ("w", "rw") and cur is not n:
            # p[i] = x where p is a pointer global: reads p
            t = f.tu.types[n["t"]] if n.get("t") is not None else {}
            if t.get("ptr"):
                mode = "r"
        out.append((n["n"], mode, n))
    return out


# --------------------------------------------------------------------------- guards (CFG based)
NEG = {"==": "!=", "!=": "==", "<": ">=", ">=": "<", ">": "<=", "<=": ">"}
SWAP = {"==": "==", "!=": "!=", "<": ">", ">": "<", "<=": ">=", ">=": "<="}


def _operand_text(n):
    """constants by value (unless they are named enumerators), everything else as text"""
    if n is not None and const_of(n) is not None and not (n.get("k") == "DeclRefExpr" and n.get("dk") == "enum"):
        return str(const_of(n))
    return expr_text(n)


def norm_cond(n, pol=True):
    """atomic condition node + polarity -> canonical (op, lhs_text, rhs_text) with polarity folded in.
    `!x` -> ('==', x, '0'); `x` -> ('!=', x, '0')."""
    n = strip(n)
    while n is not None and n.get("k") == "UnaryOperator" and n.get("op") == "!":
        pol = not pol
        n = strip(n["c"][0])
    if n is not None and n.get("k") == "BinaryOperator" and n.get("op") in NEG:
        op = n["op"]
        l, r = strip(n["c"][0]), strip(n["c"][1])
        if not pol:
            op = NEG[op]
        lt, rt = _operand_text(l), _operand_text(r)
        # constants to the right
        if const_of(l) is not None and const_of(r) is None:
            lt, rt, op = rt, lt, SWAP[op]
        return (op, lt, rt)
    return ("!=" if pol else "==", expr_text(n), "0")


def effective_cond(n):
    """The terminator condition clang reports for `if (A && B)` in the block that evaluates B is the whole
    `A && B`; on that block's edges its value is B's (A is already decided), so use the rightmost operand."""
    # only when the logical operator IS the branch condition (control-flow context); wrapped in a call such as
    # __builtin_expect() the operands are joined before the branch and the whole expression must be evaluated
    while True:
        m = n
        while m is not None and m.get("k") in CASTS and m.get("c"):
            m = m["c"][0]
        if m is not None and m.get("k") == "BinaryOperator" and m.get("op") in ("&&", "||"):
            n = m["c"][1]
        else:
            return n


def _cfg_guards(self, b):
    """conditions that hold whenever block b executes: list of dicts
       {cond: node, pol: bool} for two-way branches, {cond: node, cases: [labels]} for switches.
    Edge D->S guards b iff b is unreachable from D's other successors without passing through D again."""
    out = []
    fn = self.fn
    nodes = fn.nodes
    for d in self.dom.get(b, ()):
        if d == b:
            continue
        blk = self.blocks[d]
        ss = blk["s"]
        if len([s for s in ss if s is not None]) < 2 or "cond" not in blk:
            continue
        cond = nodes.get(blk["cond"])
        if cond is None:
            continue
        if blk.get("tk") != "SwitchStmt":
            cond = effective_cond(cond)
        if blk.get("tk") == "SwitchStmt":
            ok_labels, all_reach = [], True
            for s in ss:
                if s is None:
                    continue
                reach = b in self.reachable_from(s, avoid=(d,))
                if reach:
                    lab = self.blocks[s].get("label")
                    ln = nodes.get(lab) if lab is not None else None
                    ok_labels.append(ln)
            if ok_labels and len(ok_labels) < len([s for s in ss if s is not None]):
                out.append({"cond": cond, "cases": ok_labels, "block": d})
            continue
        if len(ss) != 2 or ss[0] is None or ss[1] is None:
            continue
        rt = b in self.reachable_from(ss[0], avoid=(d,))
        rf = b in self.reachable_from(ss[1], avoid=(d,))
        if rt and not rf:
            out.extend(_expand_guard(cond, True, d))
        elif rf and not rt:
            out.extend(_expand_guard(cond, False, d))
    return out


def _expand_guard(cond, pol, block):
    """(A && B) true -> A true, B true;  (A || B) false -> A false, B false;  !X -> X with flipped polarity"""
    out = [{"cond": cond, "pol": pol, "block": block}]
    c = strip(cond)
    while c is not None and c.get("k") == "UnaryOperator" and c.get("op") == "!":
        pol = not pol
        c = strip(c["c"][0])
    if c is not None and c.get("k") == "BinaryOperator" and ((c.get("op") == "&&" and pol) or (c.get("op") == "||" and not pol)):
        out += _expand_guard(c["c"][0], pol, block)
        out += _expand_guard(c["c"][1], pol, block)
    return out


CFG.guards = _cfg_guards


def guards_of(fn, node):
    """guards (see CFG.guards) of the basic block that evaluates `node`; climbs to the nearest ancestor
    that is a CFG element when the node itself is not one."""
    cfg = fn.cfg
    if cfg is None:
        raise AnalysisBroken("no CFG for %s" % fn.name)
    fn.nodes
    cur = node
    if cur.get("k") in ("SwitchStmt", "IfStmt", "WhileStmt") and cur.get("c") and cur["c"][0] is not None:
        cur = cur["c"][0]     # control statements are not CFG elements; their condition is
    while cur is not None:
        if "i" in cur:
            sb = cfg.stmt_block(cur["i"])
            if sb is not None:
                return _infer_guards(cfg.guards(sb[0]) + _ast_branch_guards(fn, node))
        cur = fn.parent(cur)
    return []


def _ast_branch_guards(fn, node):
    """being inside the then/else branch of an `if` implies its whole condition true/false (the CFG edges only give
    the atoms that are decided on every path); unsound only if a label inside the branch is jumped to, which is excluded"""
    out = []
    cur = node
    while cur is not None:
        par = fn.parent(cur)
        if par is not None and par.get("k") == "IfStmt" and len(par["c"]) >= 2:
            for idx, pol in ((1, True), (2, False)):
                br = par["c"][idx] if idx < len(par["c"]) else None
                if br is not None and (br is cur):
                    if not any(x.get("k") == "LabelStmt" for x in walk(br)):
                        out.extend(_expand_guard(par["c"][0], pol, None))
        cur = par
    return out


def _conjuncts(c, op):
    c = strip(c)
    if c is not None and c.get("k") == "BinaryOperator" and c.get("op") == op:
        return _conjuncts(c["c"][0], op) + _conjuncts(c["c"][1], op)
    return [c]


def _infer_guards(gs):
    """(A && B) false together with A true gives B false; (A || B) true together with A false gives B true"""
    out = list(gs)
    known = {norm_cond(g["cond"], g["pol"]) for g in gs if "pol" in g}
    for g in gs:
        if "pol" not in g:
            continue
        c = strip(g["cond"])
        pol = g["pol"]
        while c is not None and c.get("k") == "UnaryOperator" and c.get("op") == "!":
            pol = not pol
            c = strip(c["c"][0])
        if c is None or c.get("k") != "BinaryOperator":
            continue
        if c.get("op") == "&&" and not pol:
            parts = _conjuncts(c, "&&")
            unknown = [p for p in parts if norm_cond(p, True) not in known]
            if len(unknown) == 1:
                out.append({"cond": unknown[0], "pol": False, "block": g.get("block")})
        elif c.get("op") == "||" and pol:
            parts = _conjuncts(c, "||")
            unknown = [p for p in parts if norm_cond(p, False) not in known]
            if len(unknown) == 1:
                out.append({"cond": unknown[0], "pol": True, "block": g.get("block")})
    return out


def guard_texts(fn, node):
    out = []
    for g in guards_of(fn, node):
        if "pol" in g:
            out.append(norm_cond(g["cond"], g["pol"]))
        else:
            labs = []
            for ln in g["cases"]:
                if ln is None:
                    labs.append("?")
                elif ln.get("k") == "DefaultStmt":
                    labs.append("default")
                else:
                    labs.append(ln.get("en") or str(ln.get("lo")))
            out.append(("in", expr_text(strip(g["cond"])), tuple(sorted(labs))))
    return out


def init_value(n):
    """constant initialiser AST -> python value (ints, lists for arrays/records, str for string literals)"""
    if n is None:
        return None
    k = n.get("k")
    if k == "InitListExpr":
        return [init_value(c) for c in kids(n)]
    if k == "ImplicitValueInitExpr":
        return 0
    if "v" in n:
        return n["v"]
    if k == "StringLiteral":
        return n.get("s")
    if k == "FloatingLiteral":
        return n.get("fv")
    if k in CASTS or k in ("CompoundLiteralExpr",):
        c = kids(n)
        return init_value(c[0]) if c else None
    if k == "UnaryOperator" and n.get("op") == "-":
        v = init_value(n["c"][0])
        return -v if isinstance(v, (int, float)) else None
    if k == "DeclRefExpr":
        return {"ref": n.get("n")}
    return None


def global_value(tu, name, func=None):
    g = tu.global_var(name, func)
    if g is None:
        return None
    if "val" in g:
        return g["val"]
    return init_value(g.get("init"))


# --------------------------------------------------------------------------- flow-insensitive origins (def-use)
def local_defs(fn):
    """local variable / parameter decl id -> list of rhs nodes assigned to it anywhere in fn (incl. initialisers,
    compound assignments (both operands count) and ++/--)"""
    if getattr(fn, "_defs", None) is not None:
        return fn._defs
    defs = {}
    for n in fn.walk():
        k = n.get("k")
        if k == "DeclStmt":
            for v in kids(n):
                if v.get("k") == "Var" and kids(v):
                    defs.setdefault(v["d"], []).append(kids(v)[0])
        elif k == "BinaryOperator" and n.get("op") == "=":
            l = strip(n["c"][0])
            if l is not None and l.get("k") == "DeclRefExpr":
                defs.setdefault(l["d"], []).append(n["c"][1])
        elif k == "CompoundAssignOperator":
            l = strip(n["c"][0])
            if l is not None and l.get("k") == "DeclRefExpr":
                defs.setdefault(l["d"], []).append(n["c"][1])
    fn._defs = defs
    return defs


def origins(fn, expr, depth=0, seen=None, through_calls=True):
    """set of origin tokens an expression's value may depend on (flow-insensitive over local variables):
       ('g', name) global/static object, ('p', name) parameter, ('call', name) result of a call,
       ('m', member) a member read from something non-local, ('c', value) constant, ('idx', arrayname) element load"""
    out = set()
    if seen is None:
        seen = set()
    defs = local_defs(fn)
    stack = [expr]
    while stack:
        n = stack.pop()
        n = strip(n)
        if n is None:
            continue
        k = n.get("k")
        if "v" in n and k != "DeclRefExpr":
            out.add(("c", n["v"]))
            if k in ("IntegerLiteral", "CharacterLiteral", "UnaryExprOrTypeTraitExpr"):
                continue
        if k == "DeclRefExpr":
            dk = n.get("dk")
            if dk == "gvar":
                out.add(("g", n["n"]))
            elif dk == "enum":
                out.add(("c", n.get("v")))
            elif dk in ("var", "parm"):
                if dk == "parm":
                    out.add(("p", n["n"]))
                if n["d"] not in seen:
                    seen.add(n["d"])
                    for r in defs.get(n["d"], []):
                        stack.append(r)
            continue
        if k == "CallExpr":
            out.add(("call", n.get("callee") or "?"))
            if through_calls:
                for a in call_args(n):
                    stack.append(a)
            continue
        if k == "MemberExpr":
            out.add(("m", n.get("n")))
            stack.append(n["c"][0])
            continue
        if k == "ArraySubscriptExpr":
            b = strip(n["c"][0])
            if b is not None and b.get("k") == "DeclRefExpr":
                out.add(("idx", b["n"]))
            stack.append(n["c"][0])
            stack.append(n["c"][1])
            continue
        for c in kids(n):
            stack.append(c)
    return out


# --------------------------------------------------------------------------- constant folding of pure expressions
class NotConst(Exception):
    pass


def ceval(n, env, types=None):
    """fold a side-effect free expression given values for some variables (env: decl id or name -> int).
    Used to *decode tables* that the source encodes as expressions over a tiny enumerable domain
    (a comparison result in {-1,0,1}, a 2-bit matrix index, an hour 0..24); it never interprets statements."""
    if n is None:
        raise NotConst("none")
    k = n.get("k")
    if k in CASTS or k == "CompoundLiteralExpr":
        v = ceval(n["c"][0], env, types)
        if types is not None and n.get("t") is not None and k in CASTS and n.get("ck") == "IntegralCast":
            t = types[n["t"]]
            if t.get("int") and t.get("w"):
                w = t["w"]
                v &= (1 << w) - 1
                if t.get("sg") and v >= 1 << (w - 1):
                    v -= 1 << w
        return v
    if k == "DeclRefExpr":
        if n.get("d") in env:
            return env[n["d"]]
        if n.get("n") in env:
            return env[n["n"]]
        if "v" in n:
            return n["v"]
        raise NotConst("free variable %s" % n.get("n"))
    if k == "CallExpr" and n.get("callee") == "__builtin_expect":
        return ceval(n["c"][1], env, types)
    if "v" in n and k in ("IntegerLiteral", "CharacterLiteral", "UnaryExprOrTypeTraitExpr"):
        return n["v"]
    if k == "UnaryOperator":
        v = ceval(n["c"][0], env, types)
        op = n.get("op")
        if op == "!":
            return int(not v)
        if op == "-":
            return -v
        if op == "~":
            return ~v
        if op == "+":
            return v
        raise NotConst("unary " + str(op))
    if k == "BinaryOperator":
        op = n.get("op")
        if op == "&&":
            return int(bool(ceval(n["c"][0], env, types)) and bool(ceval(n["c"][1], env, types)))
        if op == "||":
            return int(bool(ceval(n["c"][0], env, types)) or bool(ceval(n["c"][1], env, types)))
        a, b = ceval(n["c"][0], env, types), ceval(n["c"][1], env, types)
        if op == "+":
            r = a + b
        elif op == "-":
            r = a - b
        elif op == "*":
            r = a * b
        elif op == "/":
            if b == 0:
                raise NotConst("div0")
            r = abs(a) // abs(b) * (1 if (a >= 0) == (b >= 0) else -1)
        elif op == "%":
            if b == 0:
                raise NotConst("div0")
            r = abs(a) % abs(b) * (1 if a >= 0 else -1)
        elif op == "<<":
            r = a << b
        elif op == ">>":
            r = a >> b
        elif op == "&":
            r = a & b
        elif op == "|":
            r = a | b
        elif op == "^":
            r = a ^ b
        elif op in ("==", "!=", "<", ">", "<=", ">="):
            r = int({"==": a == b, "!=": a != b, "<": a < b, ">": a > b, "<=": a <= b, ">=": a >= b}[op])
        elif op == ",":
            r = b
        else:
            raise NotConst("binary " + str(op))
        if types is not None and n.get("t") is not None:
            t = types[n["t"]]
            if t.get("int") and t.get("w") and op not in ("==", "!=", "<", ">", "<=", ">="):
                w = t["w"]
                r &= (1 << w) - 1
                if t.get("sg") and r >= 1 << (w - 1):
                    r -= 1 << w
        return r
    if k == "ConditionalOperator":
        return ceval(n["c"][1], env, types) if ceval(n["c"][0], env, types) else ceval(n["c"][2], env, types)
    raise NotConst(k)


# --------------------------------------------------------------------------- value kinds of dt_dt_s
SANDWICH_KINDS = {"date only": {"sandwich": 0, "typ": 1}, "time only": {"sandwich": 1, "typ": 0}, "date and time": {"sandwich": 1, "typ": 1}}


def _subst_named_members(e, vals):
    if e is None:
        return None
    if e.get("k") == "MemberExpr" and e.get("n") in vals:
        return {"k": "IntegerLiteral", "v": vals[e["n"]], "t": e.get("t")}
    o = dict(e)
    if "c" in e:
        o["c"] = [_subst_named_members(c, vals) if c is not None else None for c in e["c"]]
    return o


def sandwich_pred_value(tu, cond, vals):
    """truth of a condition built from the dt_sandwich_*_p predicates (and !, &&, ||) for one kind of value; the predicates'
    own return expressions are folded with the members `sandwich` and `typ` set as in SANDWICH_KINDS; None if not decodable"""
    c = strip(cond)
    if c is not None and c.get("k") == "UnaryOperator" and c.get("op") == "!":
        v = sandwich_pred_value(tu, c["c"][0], vals)
        return None if v is None else (not v)
    if c is not None and c.get("k") == "BinaryOperator" and c.get("op") in ("&&", "||"):
        a, b = sandwich_pred_value(tu, c["c"][0], vals), sandwich_pred_value(tu, c["c"][1], vals)
        if a is None or b is None:
            return None
        return (a and b) if c["op"] == "&&" else (a or b)
    if c is not None and c.get("k") == "CallExpr":
        f = tu.func(c.get("callee"))
        if f is None:
            return None
        rets = [r for r in f.walk() if r.get("k") == "ReturnStmt" and kids(r)]
        if len(rets) != 1:
            return None
        try:
            return bool(ceval(_subst_named_members(kids(rets[0])[0], vals), {}, tu.types))
        except NotConst:
            return None
    return None
