"""C05 — datediff is the inverse of dateadd.

That the duration printed lands the earlier value exactly on the later one is a statement about two independently written
multi-step routines over all pairs; it is NOT decided.  Decided are structural necessary conditions in the difference routines:

 RF-antisym   every calendar difference __{ymd,yd,ywd,ymcw}_diff first orders its operands (swap under a comparison of the two)
              and records that in the sign flag; nothing of the unordered pair is used afterwards -- so diff(B, A) is diff(A, B)
              with the sign flipped, by construction; the day-count difference is the plain signed difference d2 - d1
 RF-lin-diff  the coarse difference is the linear form the adders invert: months = 12 * (y2 - y1) + (m2 - m1) (ymd, ymcw),
              years = y2 - y1 (yd, ywd), weeks = c2 - c1; the result splits months into years and months with the same 12
 RF-borrow    each borrow pairs one unit less of the coarser field with the length of exactly the period that is given up:
              ymd / ymcw: the month before (y2, m2) is formed first (with the 1 -> 12 year wrap), its __get_mdays is added to the
              days, the month count drops by one -- per borrow; ywd: a week is 7 days, a year is __get_isowk weeks; yd: a year is
              365 (+ leap day) days; a borrow is taken only when the finer field is negative (below a week for ymcw)
 RF2-diff     __yd_diff and __ymd_diff decoded over their whole domain (rules/diffdecode.py): representative years for every leap
              configuration, every month and day (<= 28) of the earlier operand, the later operand's day symbolic over its range;
              at each of the ~2 million integer points the result is the duration that leads from the earlier to the later date
 RF1-yearcal  the calendar a difference counts its years in is the one dadd adds years in: the year/week/day difference counts ISO
              week-years and is therefore confined to week dates (it is not: known finding, pinned by test ddiff.053)
 RF1-disp     dt_ddiff dispatches every duration type to the difference routine of its calendar, after converting both operands
              to that calendar
"""
from core import (AnalysisBroken, strip, kids, const_of, call_args, expr_text, walk, CASTS, member_path, switch_cases)
from c04 import _lin, _key

DIFFS = ("__ymd_diff", "__yd_diff", "__ywd_diff", "__ymcw_diff")


def _u(e):
    e = strip(e)
    while e is not None and e.get("k") in CASTS and e.get("c"):
        e = strip(e["c"][0])
    return e


def _ordered(cond, d1, d2):
    """cond is `d1 > d2` in one of its spellings: d1.u > d2.u, d2.u < d1.u, cmp(d1, d2) > 0, cmp(d2, d1) < 0"""
    c = _u(cond)
    if c is None or c.get("k") != "BinaryOperator" or c.get("op") not in (">", "<"):
        return False
    l, r = _u(c["c"][0]), _u(c["c"][1])
    flip = c["op"] == "<"

    def refs(e):
        return [y.get("d") for y in walk(e) if y.get("k") == "DeclRefExpr" and y.get("d") in (d1, d2)]
    if l is not None and l.get("k") == "CallExpr" and const_of(r) == 0:
        a = [refs(x) for x in call_args(l)]
        if len(a) == 2:
            return a == ([[d2], [d1]] if flip else [[d1], [d2]])
        return False
    return (refs(l), refs(r)) == (([d2], [d1]) if flip else ([d1], [d2]))


def _roles(fn):
    """the local counters of a difference routine, found by what the result is filled from (names are not relied upon):
    {result field: decl id of the one local the stored expression reads}"""
    ret = None
    for x in fn.walk():
        if x.get("k") == "ReturnStmt" and kids(x):
            r = _u(kids(x)[0])
            if r is not None and r.get("k") == "DeclRefExpr":
                ret = r["d"]
    if ret is None:
        raise AnalysisBroken("%s: result variable not found" % fn.name)
    params = {p_["d"] for p_ in fn.params}
    roles = {}
    for x in fn.walk():
        if x.get("k") == "BinaryOperator" and x.get("op") == "=":
            l = _u(x["c"][0])
            if l is None or l.get("k") != "MemberExpr":
                continue
            b, path = member_path(l)
            if b is None or b.get("d") != ret or not path:
                continue
            loc = {y["d"] for y in walk(x["c"][1]) if y.get("k") == "DeclRefExpr" and y.get("dk") == "var" and y["d"] not in params and y["d"] != ret}
            if len(loc) == 1:
                roles.setdefault(path[-1], loc.pop())
    return roles


ROLE_OF = {"__ymd_diff": {"tgtm": "y", "tgtm2": "m", "tgtd": "d"}, "__ymcw_diff": {"tgtm": "y", "tgtm2": "m", "tgtd": "c", "tgtd2": "w"},
           "__yd_diff": {"tgty": "y", "tgtd": "d"}, "__ywd_diff": {"tgty": "y", "tgtw": "c", "tgtd": "w"}}


def _counters(fn):
    roles = _roles(fn)
    out = {}
    for nm, fld in ROLE_OF[fn.name].items():
        if fld not in roles:
            raise AnalysisBroken("%s: no single local counter feeds the result field .%s" % (fn.name, fld))
        out[nm] = roles[fld]
    for nm in list(out):
        if nm.endswith("2"):
            if out[nm] != out[nm[:-1]]:
                raise AnalysisBroken("%s: result fields .%s and .%s are not split from one counter" % (fn.name, ROLE_OF[fn.name][nm[:-1]], ROLE_OF[fn.name][nm]))
            del out[nm]
    return out


def _isv(e, d):
    e = _u(e)
    return e is not None and e.get("k") == "DeclRefExpr" and e.get("d") == d


def check_antisym(P, R, tu):
    rule = "RF-antisym"
    for name in DIFFS:
        fn = tu.func(name)
        if fn is None:
            raise AnalysisBroken("%s vanished" % name)
        R.saw(fn)
        d1, d2 = fn.params[0]["d"], fn.params[1]["d"]
        body = kids(fn.body)
        first_if = [s for s in body if s.get("k") == "IfStmt"]
        ok = False
        why = "no ordering step"
        if first_if:
            st = first_if[0]
            cond = st["c"][0]
            mention = {y.get("d") for y in walk(cond) if y.get("k") == "DeclRefExpr"}
            if {d1, d2} <= mention and not _ordered(cond, d1, d2):
                why = "the comparison `%s` is not `first operand later than second`" % expr_text(_u(cond))
            elif {d1, d2} <= mention:
                then = st["c"][1]
                asg = [(strip(a["c"][0]), strip(a["c"][1])) for a in walk(then) if a.get("k") == "BinaryOperator" and a.get("op") == "="]
                tmpd = None
                for v in walk(then):
                    if v.get("k") == "Var" and kids(v) and _u(kids(v)[0]) is not None and _u(kids(v)[0]).get("d") == d1:
                        tmpd = v["d"]
                swap1 = any(l.get("d") == d1 and r is not None and _u(r).get("d") == d2 for l, r in asg)
                swap2 = any(l.get("d") == d2 and r is not None and _u(r).get("d") == tmpd for l, r in asg) and tmpd is not None
                neg = any(l.get("k") == "MemberExpr" and l.get("n") == "neg" and const_of(r) == 1 for l, r in asg)
                # the ordering step comes before any other use of the operands
                idx = body.index(st)
                early = any(y.get("k") == "DeclRefExpr" and y.get("d") in (d1, d2) for s in body[:idx] for y in walk(s))
                ok = swap1 and swap2 and neg and not early
                why = "swap d1<-d2: %s, d2<-saved d1: %s, sign recorded: %s, operands used before: %s" % (swap1, swap2, neg, early)
        if ok:
            R.ob(rule, "%s orders its operands first and records the sign" % name, True)
        else:
            R.finding(rule, fn, "ordering step", "%s must start by ordering its two operands (swap under a comparison of the two) and set "
                      "the sign flag: %s" % (name, why))
    fn = tu.func("__daisy_diff")
    if fn is None:
        raise AnalysisBroken("__daisy_diff vanished")
    R.saw(fn)
    d1, d2 = fn.params[0]["d"], fn.params[1]["d"]
    okd = False
    for v in fn.walk():
        if v.get("k") == "Var" and kids(v) and _lin(fn, kids(v)[0], {}) == {d2: 1, d1: -1}:
            okd = True
    for c in fn.calls("dt_make_ddur"):
        if _lin(fn, call_args(c)[1], {}) == {d2: 1, d1: -1}:
            okd = True
    if okd:
        R.ob(rule, "__daisy_diff is d2 - d1", True)
    else:
        R.finding(rule, fn, "day count difference", "__daisy_diff must be the signed difference d2 - d1")


def _member_lin(fn, e, d1, d2):
    """linear form over member reads of the two operands: {(operand#, member): coeff}"""
    e = _u(e)
    if e is None:
        return None
    c = const_of(e)
    if c is not None and e.get("k") != "DeclRefExpr":
        return {1: c} if c else {}
    if e.get("k") == "MemberExpr":
        b, path = member_path(e)
        if b is not None and b.get("d") in (d1, d2) and path:
            return {(1 if b["d"] == d1 else 2, path[-1]): 1}
        return None
    if e.get("k") == "BinaryOperator" and e.get("op") in ("+", "-", "*"):
        a, b = _member_lin(fn, e["c"][0], d1, d2), _member_lin(fn, e["c"][1], d1, d2)
        if a is None or b is None:
            return None
        if e["op"] == "*":
            if not (set(a) - {1}):
                return {k: v * a.get(1, 0) for k, v in b.items() if v * a.get(1, 0)}
            if not (set(b) - {1}):
                return {k: v * b.get(1, 0) for k, v in a.items() if v * b.get(1, 0)}
            return None
        out = dict(a)
        for k, v in b.items():
            out[k] = out.get(k, 0) + (v if e["op"] == "+" else -v)
        return {k: v for k, v in out.items() if v}
    return None


def check_linear(P, R, tu):
    rule = "RF-lin-diff"
    want = {"__ymd_diff": {"tgtm": {(2, "y"): 12, (1, "y"): -12, (2, "m"): 1, (1, "m"): -1}},
            "__ymcw_diff": {"tgtm": {(2, "y"): 12, (1, "y"): -12, (2, "m"): 1, (1, "m"): -1}},
            "__yd_diff": {"tgty": {(2, "y"): 1, (1, "y"): -1}, "tgtd": {(2, "d"): 1, (1, "d"): -1}},
            "__ywd_diff": {"tgty": {(2, "y"): 1, (1, "y"): -1}, "tgtw": {(2, "c"): 1, (1, "c"): -1}}}
    for name, forms in want.items():
        fn = tu.func(name)
        d1, d2 = fn.params[0]["d"], fn.params[1]["d"]
        C = _counters(fn)
        byid = {C[v]: v for v in forms}
        first = {}
        for x in sorted(fn.walk(), key=lambda n: n.get("i", 0)):
            if x.get("k") == "BinaryOperator" and x.get("op") == "=":
                l = _u(x["c"][0])
                if l is not None and l.get("k") == "DeclRefExpr" and l.get("d") in byid and byid[l["d"]] not in first:
                    first[byid[l["d"]]] = _member_lin(fn, x["c"][1], d1, d2)
            elif x.get("k") == "Var" and x.get("d") in byid and kids(x) and byid[x["d"]] not in first:
                first[byid[x["d"]]] = _member_lin(fn, kids(x)[0], d1, d2)
        for var, exp in forms.items():
            got = first.get(var)
            if got == exp:
                R.ob(rule, "%s: %s = %s" % (name, var, _show(exp)), True)
            else:
                R.finding(rule, fn, "coarse difference %s" % var, "%s starts %s as %s; the adders invert %s" % (name, var, _show(got), _show(exp)))
        # the split of months into years and months uses one constant
        if name in ("__ymd_diff", "__ymcw_diff"):
            divs = sorted({const_of(x["c"][1]) for x in fn.walk() if x.get("k") == "BinaryOperator" and x.get("op") in ("/", "%") and
                           _isv(x["c"][0], C["tgtm"])})
            if divs == [12]:
                R.ob(rule, "%s: months split into years and months by 12" % name, True)
            else:
                R.finding(rule, fn, "month split", "%s splits the month count by %s" % (name, divs))


def _show(f):
    if f is None:
        return "?"
    return " ".join("%+d*%s" % (v, ("d%d.%s" % k) if k != 1 else "1") for k, v in sorted(f.items(), key=repr)) or "0"


class _Advisory:
    """RF-borrow describes one way of writing a borrow; for the routines RF2-diff decodes over their whole domain a shape it does not
    recognise (the step to the month before moved into a helper, say) is no verdict: recorded as a note, decided by the decode"""
    def __init__(self, R, decoded):
        self._R, self._decoded = R, decoded

    def __getattr__(self, nm):
        return getattr(self._R, nm)

    def finding(self, rule, fn, site, msg, *a, **k):
        if getattr(fn, "name", None) in self._decoded:
            self._R.notes.append("%s (advisory, %s): %s" % (rule, fn.name, msg[:200]))
        else:
            self._R.finding(rule, fn, site, msg, *a, **k)


def check_borrow(P, R, tu):
    R = _Advisory(R, {"__ymd_diff", "__yd_diff", "__ywd_diff"})
    rule = "RF-borrow"
    # ymd / ymcw: month borrow
    for name, nborrow in (("__ymd_diff", 2), ("__ymcw_diff", 1)):
        fn = tu.func(name)
        C = _counters(fn)
        adds = [x for x in fn.walk() if x.get("k") == "CompoundAssignOperator" and x.get("op") == "+=" and _isv(x["c"][0], C["tgtd"])
                and _u(x["c"][1]) is not None and _u(x["c"][1]).get("k") == "CallExpr" and _u(x["c"][1]).get("callee") == "__get_mdays"]
        decs = [x for x in fn.walk() if x.get("k") == "UnaryOperator" and x.get("op") == "--" and _isv(x["c"][0], C["tgtm"])]
        def wraps_below_one(x):
            """`if (<decrement of a month> compared with a constant)` that is true exactly when the stepped month is below 1:
            --m < 1, --m <= 0, m-- < 2, m-- <= 1"""
            if x.get("k") != "IfStmt":
                return False
            c = _u(x["c"][0])
            if c is None or c.get("k") != "BinaryOperator" or c.get("op") not in ("<", "<="):
                return False
            u = _u(c["c"][0])
            k = const_of(c["c"][1])
            if u is None or u.get("k") != "UnaryOperator" or u.get("op") != "--" or k is None:
                return False
            bound = k if c["op"] == "<" else k + 1          # true iff compared value < bound
            if u.get("postfix"):
                bound -= 1                                  # the compared value is the month before the step: new value = it - 1
            return bound == 1
        steps = [x for x in fn.walk() if wraps_below_one(x)]
        ok = len(adds) == nborrow and len(decs) == nborrow and len(steps) == nborrow
        detail = "%d additions of a month length, %d decrements of the month count, %d steps to the month before" % (len(adds), len(decs), len(steps))
        if ok:
            for a, st in zip(sorted(adds, key=lambda n: n["i"]), sorted(steps, key=lambda n: n["i"])):
                # the month step comes before the length is taken, and the length is that of the stepped (year, month)
                args = [_u(x) for x in call_args(_u(a["c"][1]))]
                mvar = _u(_u(st["c"][0])["c"][0])["c"][0]
                mvar = _u(mvar)
                wrap = [const_of(x["c"][1]) for x in walk(st["c"][1]) if x.get("k") == "BinaryOperator" and x.get("op") == "=" and
                        _u(x["c"][0]).get("d") == mvar.get("d")]
                ydec = [x for x in walk(st["c"][1]) if x.get("k") == "UnaryOperator" and x.get("op") == "--"]
                if not (st["i"] < a["i"] and len(args) == 2 and args[1] is not None and args[1].get("d") == mvar.get("d") and wrap == [12]
                        and len(ydec) == 1 and args[0] is not None and args[0].get("d") == _u(ydec[0]["c"][0]).get("d")):
                    ok = False
                    detail = "a borrow does not add the length of the month it just stepped back to (wrap %s)" % wrap
        if not adds:
            # the anchor of the clause (`days += __get_mdays(..)`) is not in this routine (moved into a helper, or written another
            # way): the clause does not apply as written -- undecided, not a violation
            R.notes.append("%s not applied to %s: no `+= __get_mdays(..)` on the day counter in the routine itself (%s)" % (rule, name, detail))
            continue
        if ok:
            R.ob(rule, "%s: each of its %d borrows steps to the month before, adds that month's length, takes one month off" % (name, nborrow), True)
        else:
            R.finding(rule, fn, "month borrow", "%s: %s; a borrow must give up exactly the month before (y2, m2) and add its length" % (name, detail))
        # borrow condition
        cond_ok = False
        for x in fn.walk():
            if x.get("k") == "IfStmt" and any(a is y for a in adds for y in walk(x["c"][1])):
                c = _u(x["c"][0])
                if c is not None and c.get("k") == "BinaryOperator" and c.get("op") == "&&":
                    short = month = False
                    for part in (_u(c["c"][0]), _u(c["c"][1])):
                        if part is None or part.get("k") != "BinaryOperator":
                            continue
                        names = {y.get("d") for y in walk(part) if y.get("k") == "DeclRefExpr" and y.get("dk") in ("var", "parm")}
                        if part.get("op") == "<" and C["tgtd"] in names and const_of(part["c"][1]) in ((0,) if name == "__ymd_diff" else (0, 7)):
                            short = True
                        if part.get("op") in ("!=", ">") and names == {C["tgtm"]} and const_of(part["c"][1]) == 0:
                            month = True
                    cond_ok = short and month
                break
        if cond_ok:
            R.ob(rule, "%s borrows only when the day part is short and there is a month to give" % name, True)
        else:
            R.finding(rule, fn, "borrow condition", "%s must borrow a month only when the day part is negative (below a week for ymcw) and "
                      "the month count is not zero" % name)
    # ywd: week = 7 days, year = __get_isowk weeks
    fn = tu.func("__ywd_diff")
    C = _counters(fn)
    ok7 = any(x.get("k") == "CompoundAssignOperator" and x.get("op") == "+=" and _isv(x["c"][0], C["tgtd"]) and const_of(x["c"][1]) == 7
              for x in fn.walk())
    okw = any(x.get("k") == "CompoundAssignOperator" and x.get("op") == "+=" and _isv(x["c"][0], C["tgtw"]) and
              _u(x["c"][1]) is not None and _u(x["c"][1]).get("k") == "CallExpr" and _u(x["c"][1]).get("callee") == "__get_isowk" for x in fn.walk())
    decs = {(_u(x["c"][0]).get("d")) for x in fn.walk() if x.get("k") == "UnaryOperator" and x.get("op") == "--"}
    # the year given up is the one before the later operand's: d1.y + tgty after the decrement, or d2.y - 1
    d1, d2 = fn.params[0]["d"], fn.params[1]["d"]
    for x in fn.calls("__get_isowk"):
        a = _u(call_args(x)[0])
        lf = _member_lin(fn, a, d1, d2)
        names = {y.get("n") for y in walk(a) if y.get("k") == "DeclRefExpr"}
        dec = [y for y in fn.walk() if y.get("k") == "UnaryOperator" and y.get("op") == "--" and _isv(y["c"][0], C["tgty"])]
        form1 = False
        if a is not None and a.get("k") == "BinaryOperator" and a.get("op") == "+":
            for m_, v_ in ((a["c"][0], a["c"][1]), (a["c"][1], a["c"][0])):
                if _member_lin(fn, m_, d1, d2) == {(1, "y"): 1} and _isv(v_, C["tgty"]) and dec and dec[0]["i"] < x["i"]:
                    form1 = True
        form2 = lf == {(2, "y"): 1, 1: -1}
        if not (form1 or form2):
            okw = False
    if ok7 and okw and decs == {C["tgtw"], C["tgty"]}:
        R.ob(rule, "__ywd_diff: a borrowed week is 7 days, a borrowed year is __get_isowk weeks", True)
    else:
        R.finding(rule, fn, "week / year borrow", "__ywd_diff must pair tgtw-- with tgtd += 7 and tgty-- with tgtw += __get_isowk(..)")
    # yd: year = 365 (+ leap day)
    fn = tu.func("__yd_diff")
    C = _counters(fn)
    oky = False
    for x in fn.walk():
        if x.get("k") == "CompoundAssignOperator" and x.get("op") == "+=" and _isv(x["c"][0], C["tgtd"]):
            r = _u(x["c"][1])
            if r is not None and r.get("k") == "BinaryOperator" and r.get("op") == "+" and const_of(r["c"][0]) == 365 and \
                    any(y.get("k") == "CallExpr" and y.get("callee") == "__leapp" for y in walk(r["c"][1])):
                oky = True
    decy = any(x.get("k") == "UnaryOperator" and x.get("op") == "--" and _isv(x["c"][0], C["tgty"]) for x in fn.walk())
    if oky and decy:
        R.ob(rule, "__yd_diff: a borrowed year is 365 days plus the leap day", True)
    else:
        R.finding(rule, fn, "year borrow", "__yd_diff must pair tgty-- with tgtd += 365 + (leap day)")


def check_dispatch(P, R, tu):
    rule = "RF1-disp"
    fn = tu.func("dt_ddiff")
    if fn is None:
        raise AnalysisBroken("dt_ddiff vanished")
    R.saw(fn)
    want = {"DT_DURD": ("__daisy_diff", "dt_conv_to_daisy"), "DT_DURYMD": ("__ymd_diff", "dt_conv_to_ymd"), "DT_DURYMCW": ("__ymcw_diff", "dt_conv_to_ymcw"),
            "DT_DURYD": ("__yd_diff", "dt_conv_to_yd"), "DT_DURYWD": ("__ywd_diff", "dt_conv_to_ywd")}
    sws = list(fn.switches())
    if not sws:
        raise AnalysisBroken("%s: dispatch switch of dt_ddiff not found" % rule)
    groups = switch_cases(sws[0])
    for en, (diff, conv) in want.items():
        hit = None
        for g in groups:
            if any(l["en"] == en for l in g["labels"]):
                calls = [y.get("callee") for s_ in g["stmts"] for y in walk(s_) if y.get("k") == "CallExpr"]
                hit = diff in calls and calls.count(conv) >= 2
                # operand order: first argument comes from d1, second from d2
                p1, p2 = fn.params[1]["d"], fn.params[2]["d"]
                src = {}
                for s_ in g["stmts"]:
                    for v in walk(s_):
                        if v.get("k") == "Var" and kids(v) and _u(kids(v)[0]) is not None and _u(kids(v)[0]).get("callee") == conv:
                            a0 = _u(call_args(_u(kids(v)[0]))[0])
                            src[v["d"]] = a0.get("d") if a0 is not None else None
                for s_ in g["stmts"]:
                    for y in walk(s_):
                        if y.get("k") == "CallExpr" and y.get("callee") == diff:
                            a = [_u(z) for z in call_args(y)]
                            if [src.get(z.get("d")) if z is not None else None for z in a] != [p1, p2]:
                                hit = False
        if hit and en == "DT_DURYWD":
            # years of this duration type are ISO week-years (decoded: RF2-diff), dadd adds years in the calendar of its operand:
            # the two agree only for week dates, so the case has to be confined to them
            grp = [g for g in groups if any(l["en"] == en for l in g["labels"])][0]
            typ_tests = [y for s_ in grp["stmts"] for y in walk(s_) if y.get("k") == "MemberExpr" and y.get("n") == "typ"]
            if typ_tests:
                R.ob("RF1-yearcal", "dt_ddiff %s looks at the calendar of its operands" % en, True)
            else:
                R.finding("RF1-yearcal", fn, "case %s: years counted in ISO week-years for operands of any calendar" % en,
                          "a difference in years, weeks and days converts both operands to week dates and counts ISO week-years, whatever "
                          "calendar they came in; dadd adds years in the calendar of the date it is given, so for ymd dates the printed "
                          "duration does not lead back: `ddiff 2010-03-01 2012-03-01 -f '%Y %w %d'` = 2 0 3, `dadd 2010-03-01 +2y +0w +3d` = "
                          "2012-03-04")
        if hit:
            R.ob(rule, "dt_ddiff %s: both operands through %s, then %s" % (en, conv, diff), True)
        else:
            R.finding(rule, fn, "case %s" % en, "dt_ddiff must convert both operands with %s and hand them to %s for %s" % (conv, diff, en))


def check(P, R, tier):
    tu = P.tu("libdut_a-date-core.o")
    check_antisym(P, R, tu)
    check_linear(P, R, tu)
    check_borrow(P, R, tu)
    check_dispatch(P, R, tu)
    import diffdecode
    n = diffdecode.check_all(R, tu, "RF2-diff")
    R.floor("RF2-diff", "decoded points of the year/day, year/month/day and year/week/day differences", n, 3000000)
    import mixdiff
    nm = mixdiff.run_parallel(R, P, "RF2-mixdiff")
    R.floor("RF2-mixdiff", "differences of date-times held in different representations", nm, 50000)
    # the statement is about the duration ddiff *prints*: which duration type a format selects and how the components are laid out
    # (src/ddiff.c) are part of it, so the printing pipeline is decoded under this check as well (as under C06)
    import diffout
    nout = diffout.run_parallel(R, P, "RF2-out", jobs=8)
    R.floor("RF2-out", "decoded (pair of inputs, format) points of what ddiff prints", nout, 6000)


LEVEL = ("Decides, for the year/day, year/month/day and year/week/day differences, the inverse law itself by decoding the routines over their whole domain (RF2-diff), and structural necessary conditions of `difference inverts addition`: operands are ordered first and the sign is "
         "recorded (antisymmetry by construction), the coarse difference is the linear form the adders invert, every borrow gives up "
         "exactly one period and adds that period's length, and the dispatch pairs each duration type with its calendar.  NOT "
         "decided: __ymcw_diff, the time part of date-time differences, and the exactness of the adders themselves (C03 / C04).")
RULE = "obligation = one ordering step, one linear form, one borrow pairing / condition, one dispatch case, one decoded routine (all its points)"
ASSUME = ["period lengths (__get_mdays, __get_isowk, __leapp) are right (C01)", "the adders are as decided under C03 / C04"]
