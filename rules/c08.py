"""C08 — comparison is the chronological total order; sorting respects it.

A total order on unsigned words is antisymmetric, transitive and total, so the property reduces to structure:
 RF1b-raw    the representations compared as raw words (dt_dcmp / dt_dtcmp) are exactly those whose record layout
             orders the fields by chronological significance; ymcw goes to its dedicated comparison
 RF-sign     every `return c` of a three-way comparison is guarded by exactly the relation sign(c) between the
             left and the right operand (operand roles and signs, decided from the CFG guards)
 RF-lex      __ymcw_cmp compares year, month, count in that order and then the offset from the month's first weekday
 RF14-umod   no unsigned difference that can wrap is reduced modulo a non-power-of-two in the comparison code
 RF3-signed  the epoch branch of dt_dtcmp orders values through a member of signed type (instants before 1970 are negative)
 RF1-packed  dt_dtcmp never reads the date/time sandwich slots of a value whose tag says it is a packed epoch value
             (tag-specialised abstract interpretation over the record layout)
 RF2-range   the 32-bit matrix of dt_d_in_range_p / dt_dt_in_range_p decodes to the documented table; both functions agree
 RF2-dtest   dtest's option -> accepted comparison results table
 RF2-dsort   dsort's key formats, separator byte and child command lines agree with each other
"""
import re
from core import (AnalysisBroken, strip, kids, const_of, call_args, expr_text, walk, guards_of, norm_cond, switch_cases,
                  member_path, ceval, NotConst, init_value, CallGraph, CASTS)
import absint
from absint import Interp, State

# significance order (most significant first) of the fields of the raw-comparable representations
MONOTONE = {
    "DT_YMD": ("dt_ymd_t", ["y", "m", "d"]),
    "DT_BIZDA": ("dt_bizda_t", ["y", "m", "bd"]),
    "DT_YWD": ("dt_ywd_t", ["y", "c", "w"]),
    "DT_YD": ("dt_yd_t", ["y", "d"]),
    "DT_DAISY": (None, None),     # scalar day count
    "DT_LDN": (None, None),       # scalar day count (Lilian)
    "DT_MDN": (None, None),       # scalar day count (Matlab)
    "DT_UMMULQURA": ("dt_ymd_t", ["y", "m", "d"]),   # typedef of dt_ymd_t
}


def _rel_of_guards(gs, lt, rt):
    """possible relations {<,=,>} between operand texts lt and rt given normalised guard atoms"""
    poss = {"<", "=", ">"}
    table = {"<": {"<"}, "<=": {"<", "="}, ">": {">"}, ">=": {">", "="}, "==": {"="}, "!=": {"<", ">"}}
    flip = {"<": ">", ">": "<", "=": "="}
    for op, a, b in gs:
        if op not in table:
            continue
        if (a, b) == (lt, rt):
            poss &= table[op]
        elif (a, b) == (rt, lt):
            poss &= {flip[x] for x in table[op]}
    return poss


def check_sign_returns(fn, R, pairs):
    """pairs: function params (left, right) names.  Every `return <const in -1,0,1>` whose guards compare an expression
    over left with the same expression over right must return the sign of that comparison."""
    rule = "RF-sign"
    left, right = pairs
    n = 0
    for r in fn.walk():
        if r.get("k") != "ReturnStmt" or not kids(r):
            continue
        c = const_of(kids(r)[0])
        if c not in (-1, 0, 1):
            continue
        gs = [norm_cond(g["cond"], g["pol"]) for g in guards_of(fn, r) if "pol" in g]
        # innermost decisive pair: find operand texts a (over left) and b (over right) that are mirror images
        cands = []
        lx, rx = left[-1], right[-1]   # operand suffixes (d1/d2, t1/t2): locals derived from them follow the same naming

        def mirror(p, q):
            return (p != q and ((p.replace(left, "#") == q.replace(right, "#") and left in p and right in q) or
                                (re.sub(r"(?<=[A-Za-z_])" + lx + r"\b", "#", p) == re.sub(r"(?<=[A-Za-z_])" + rx + r"\b", "#", q))))
        for op, a, b in gs:
            if mirror(a, b):
                cands.append((a, b))
            elif mirror(b, a):
                cands.append((b, a))
        if not cands:
            continue
        # the last distinct pair in guard order that is not forced to `=` decides; earlier pairs must be `=`
        decided = None
        for a, b in dict.fromkeys(cands):
            poss = _rel_of_guards(gs, a, b)
            if poss != {"="}:
                decided = (a, b, poss)
        n += 1
        if decided is None:
            want = 0
            a, b = cands[-1]
            poss = {"="}
        else:
            a, b, poss = decided
            want = {"<": -1, ">": 1}.get(next(iter(poss))) if len(poss) == 1 else None
        site = "return %d under %s ? %s" % (c, a, b)
        if want == c:
            R.ob(rule, "%s: %s (%s)" % (fn.name, site, "".join(sorted(poss))), True,
                 sample={"rule": rule, "fn": fn.name, "return": c, "relation": "%s %s %s" % (a, "".join(sorted(poss)), b)})
        else:
            R.finding(rule, fn, site, "returns %d where the guards establish %s %s %s (left operand vs right operand): "
                      "sign or operand roles are wrong" % (c, a, "/".join(sorted(poss)), b), r)
    return n


def check_raw_sets(P, R):
    rule = "RF1b-raw"
    for tun, fname, op in (("date-core.c", "dt_dcmp", "d1.u"), ("dt-core.c", "dt_dtcmp", "d1.d.u")):
        tu = P.tu(tun)
        fn = tu.func(fname)
        if fn is None:
            raise AnalysisBroken("%s vanished" % fname)
        R.saw(fn)
        sws = [s for s in fn.switches() if expr_text(strip(s["c"][0])).endswith("typ")]
        if not sws:
            raise AnalysisBroken("%s: dispatch on the type tag not found in %s" % (rule, fname))
        raw, ymcw_ok = None, False
        for g in switch_cases(sws[0]):
            labs = [l["en"] for l in g["labels"]]
            txt = " ".join(expr_text(x) for s in g["stmts"] for x in walk(s) if x.get("k") == "BinaryOperator" and x.get("op") in ("<", ">", "=="))
            calls = [x.get("callee") for s in g["stmts"] for x in walk(s) if x.get("k") == "CallExpr"]
            if ".u" in txt and "default" not in labs:
                raw = labs
            if "DT_YMCW" in labs and "__ymcw_cmp" in calls:
                ymcw_ok = True
        if raw is None:
            raise AnalysisBroken("%s: raw-word comparison group not found in %s" % (rule, fname))
        for lab in raw:
            if lab not in MONOTONE:
                R.finding(rule, fn, "raw compare of %s" % lab, "%s values are compared as raw words but their encoding is not "
                          "ordered by chronological significance" % lab)
                continue
            recname, order = MONOTONE[lab]
            if recname is None:
                R.ob(rule, "%s: %s is a scalar count" % (fname, lab), True)
                continue
            rec = tu.record(recname)
            if rec is None:
                raise AnalysisBroken("%s: record %s vanished" % (rule, recname))
            cells = {p: (off, w) for p, off, w, sg in tu.flatten_record(rec)}
            offs = []
            for f in order:
                if f not in cells:
                    raise AnalysisBroken("%s: field %s.%s vanished" % (rule, recname, f))
                offs.append(cells[f])
            mono = all(offs[i][0] >= offs[i + 1][0] + offs[i + 1][1] for i in range(len(offs) - 1))
            if mono:
                R.ob(rule, "%s: %s fields %s ordered by significance" % (fname, recname, ">".join(order)), True,
                     sample={"rule": rule, "record": recname, "bit offsets": {f: cells[f][0] for f in order}})
            else:
                R.finding(rule, None, "layout of %s" % recname, "bit-fields %s of %s are not laid out in decreasing significance: %s"
                          % (order, recname, {f: cells[f] for f in order}), file="lib/date-core.h", line=rec["line"])
        if ymcw_ok:
            R.ob(rule, "%s: ymcw uses __ymcw_cmp" % fname, True)
        else:
            R.finding(rule, fn, "ymcw dispatch", "ymcw values must be compared by __ymcw_cmp (their words are not monotone)")


def check_lex(P, R):
    rule = "RF-lex"
    tu = P.tu("date-core.c")
    fn = tu.func("__ymcw_cmp")
    if fn is None:
        raise AnalysisBroken("__ymcw_cmp vanished")
    R.saw(fn)
    # order of the fields compared, by first occurrence in source order (the if-chain is evaluated top-down)
    order = []
    for x in fn.walk():
        if x.get("k") == "BinaryOperator" and x.get("op") in ("<", ">"):
            a, b = strip(x["c"][0]), strip(x["c"][1])
            if a is not None and b is not None and a.get("k") == b.get("k") == "MemberExpr" and a.get("n") == b.get("n"):
                if a["n"] not in order:
                    order.append(a["n"])
    if order == ["y", "m", "c"]:
        R.ob(rule, "__ymcw_cmp compares y, m, c in this order", True)
    else:
        R.finding(rule, fn, "field order %s" % order, "year, month, count must be compared in this order; found %s" % order)
    # final tie-break: both operands are reduced by the same expression (mirror images); whether that expression is
    # wrap-free is RF14-umod's business
    offs = []
    for x in fn.walk():
        if x.get("k") == "Var" or (x.get("k") == "BinaryOperator" and x.get("op") == "="):
            rhs = strip(kids(x)[-1]) if kids(x) else None
            if rhs is not None and any(y.get("k") == "MemberExpr" and y.get("n") == "w" for y in walk(rhs)):
                offs.append(expr_text(rhs))
    if len(offs) == 2 and offs[0].replace("d1", "#") == offs[1].replace("d2", "#"):
        R.ob(rule, "weekday offsets computed alike: %s" % offs[0], True)
    else:
        R.finding(rule, fn, "weekday offset", "the tie-break must reduce both weekdays by the same expression; found %s" % offs)


def check_umod(P, R, roots):
    rule = "RF14-umod"
    cg = CallGraph(P)
    fns = cg.reachable(roots)
    n = 0
    for fn in fns:
        R.saw(fn)
        for x in fn.walk():
            if x.get("k") not in ("BinaryOperator", "CompoundAssignOperator") or x.get("op") not in ("%", "%="):
                continue
            t = fn.tu.types[x["t"]]
            if t.get("sg") is not False:
                continue
            c = const_of(x["c"][1])
            if c is not None and c & (c - 1) == 0:
                continue
            for s in walk(x["c"][0]):
                if s.get("k") == "BinaryOperator" and s.get("op") == "-" and fn.tu.types[s["t"]].get("sg") is False:
                    sub = strip(s["c"][1])
                    if const_of(sub) is not None:
                        continue   # 1-based -> 0-based
                    # bias: minuend contains + K with K >= modulus - 1
                    bias = 0
                    for y in walk(s["c"][0]):
                        if y.get("k") == "BinaryOperator" and y.get("op") == "+":
                            for z in (y["c"][0], y["c"][1]):
                                if const_of(z) is not None:
                                    bias = max(bias, const_of(z))
                    n += 1
                    site = "%s %% %s" % (expr_text(strip(x["c"][0])), c)
                    if c is not None and bias >= c - 1:
                        R.ob(rule, "%s: %s (biased by %d)" % (fn.name, site, bias), True)
                    else:
                        R.finding(rule, fn, site, "the difference `%s` is evaluated in unsigned arithmetic and can wrap; reduced "
                                  "modulo %s (not a power of two) the wrapped value gives a wrong residue" % (expr_text(s), c), x)
    return n


def check_packed(P, R):
    rule = "RF1-packed"
    tu = P.tu("dt-core.c")
    fn = tu.func("dt_dtcmp")
    if fn is None:
        raise AnalysisBroken("dt_dtcmp vanished")
    tags = {n: v for n, v in tu.enum_items("dt_dttyp_t")}
    packed = {k: tags[k] for k in ("DT_YMDHMS", "DT_SEXY", "DT_SEXYTAI") if k in tags}
    if len(packed) != 3:
        raise AnalysisBroken("packed date-time tags not found")
    rec = tu.record("dt_dt_s")
    cells = {p: (off, w) for p, off, w, sg in tu.flatten_record(rec)}
    if cells.get("typ") != (0, 4) or cells.get("sandwich") != (4, 1):
        raise AnalysisBroken("layout of struct dt_dt_s changed: typ/sandwich at %s/%s" % (cells.get("typ"), cells.get("sandwich")))
    hits = {}
    ok = 0
    for p in fn.params:
        for tn, tv in sorted(packed.items()):
            def on_block(I, f2, b, st, ctx, p=p, tn=tn, tv=tv):
                blk = f2.cfg.blocks[b]
                for e in blk["e"]:
                    n = f2.nodes.get(e)
                    if n is None or n.get("k") != "ImplicitCastExpr" or n.get("ck") != "LValueToRValue":
                        continue
                    m = n["c"][0]
                    if m.get("k") != "MemberExpr":
                        continue
                    loc = I.loc_of(f2, m)
                    if loc is None or loc[0] != p["d"]:
                        continue
                    base, path = member_path(m)
                    if path and path[0] in ("d", "t") and loc[1] >= 16 and st.get((p["d"], 0, 4)) == tv:
                        hits.setdefault((p["n"], expr_text(m)), (n, set()))[1].add(tn)
            I = Interp(P, callbacks={"on_block": on_block}, ret_tag_funcs={"dt_dtconv": (0, 0, 4)})
            I.track_types = ("dt_dt_s",)
            I.derived = lambda st, loc: 0 if (loc[1], loc[2]) == (4, 1) and st.get((loc[0], 0, 4)) in packed.values() else None
            st = State()
            st.set((p["d"], 0, 4), tv)
            # both operands have the same tag once past the first test; give the other one the same tag
            for q in fn.params:
                st.set((q["d"], 0, 4), tv)
            I.run(fn, st)
            ok += 1
    R.saw(fn)
    if hits:
        for (pn, txt), (node, tset) in sorted(hits.items()):
            R.finding(rule, fn, "read of %s" % txt,
                      "%s is read although the value's tag may be %s: packed epoch values have no date/time sandwich, the slot "
                      "does not hold their value (all such values compare equal)" % (txt, "/".join(sorted(tset))), node)
    else:
        R.ob(rule, "dt_dtcmp reads no sandwich slot under a packed tag (%d tag runs)" % ok, True)


def check_epoch_sign(P, R):
    """RF3-signed: epoch offsets are signed (instants before 1970 are negative) and share their bits with the unsigned packed word
    `u`.  In the branch of dt_dtcmp that handles the epoch tags, every ordering comparison reads a member of signed type; an
    unsigned view orders every instant before 1970 after every instant since."""
    from core import walk
    rule = "RF3-signed"
    tu = P.tu("dt-core.c")
    fn = tu.func("dt_dtcmp")
    if fn is None:
        raise AnalysisBroken("dt_dtcmp vanished")
    branches = []
    for x in fn.walk():
        if x.get("k") == "IfStmt":
            names = {y.get("n") for y in walk(x["c"][0]) if y.get("k") == "DeclRefExpr"}
            if {"DT_SEXY", "DT_SEXYTAI"} & names and not ({"DT_YMDHMS"} & names):
                branches.append(x["c"][1])
    if not branches:
        raise AnalysisBroken("%s: the epoch branch of dt_dtcmp was not found" % rule)
    n = 0
    for br in branches:
        for c in walk(br):
            if c.get("k") != "BinaryOperator" or c.get("op") not in ("<", ">", "<=", ">="):
                continue
            n += 1
            bad = []
            for side in c["c"]:
                e = strip(side)
                while e is not None and e.get("k") in ("ImplicitCastExpr", "CStyleCastExpr", "ParenExpr") and e.get("c"):
                    e = strip(e["c"][0])
                if e is None or e.get("k") != "MemberExpr":
                    continue
                t = fn.tu.types[e["t"]] if e.get("t") is not None else {}
                if not t.get("sg"):
                    bad.append(expr_text(e))
            if bad:
                R.finding(rule, fn, "epoch comparison `%s`" % expr_text(c), "epoch values are compared through the unsigned member %s: an "
                          "instant before 1970 (negative offset) becomes a huge number and compares later than every instant since: "
                          "`dtest @-100 --lt @100` is false" % ", ".join(bad), c)
            else:
                R.ob(rule, "dt_dtcmp: `%s` compares signed epoch offsets" % expr_text(c), True)
    R.floor(rule, "ordering comparisons in the epoch branch of dt_dtcmp", n, 2)


def check_range(P, R):
    rule = "RF2-range"
    want = {}
    for ci in (-2, -1, 0, 1):
        for cj in (-2, -1, 0, 1):
            want[(ci, cj)] = -1 if (ci == -2 or cj == -2) else (1 if (ci >= 0 and cj <= 0) else 0)
    got_all = {}
    for tun, fname, cmp_ in (("date-core.c", "dt_d_in_range_p", "dt_dcmp"), ("dt-core.c", "dt_dt_in_range_p", "dt_dtcmp")):
        tu = P.tu(tun)
        fn = tu.func(fname)
        if fn is None:
            raise AnalysisBroken("%s vanished" % fname)
        R.saw(fn)
        # the predicate folded as it stands, the comparison replaced by a stand-in that answers ci for (d, d1) and cj for (d, d2) and
        # tells when it is asked anything else (names of locals, the spelling of masks and of the lookup do not matter)
        import fold as _fold
        got = {}
        roles_bad = []
        for ci in (-2, -1, 0, 1):
            for cj in (-2, -1, 0, 1):
                def cmp_model(a, b, ci=ci, cj=cj):
                    ka, kb = (a or {}).get("mark"), (b or {}).get("mark")
                    if ka == 0 and kb == 1:
                        return ci
                    if ka == 0 and kb == 2:
                        return cj
                    roles_bad.append((ka, kb))
                    return 0
                try:
                    fo = _fold.Folder(fn, calls={cmp_: cmp_model}, inline=True, max_steps=100000)
                    got[(ci, cj)] = fo.run([{"mark": 0}, {"mark": 1}, {"mark": 2}])
                except (NotConst, _fold.Abort) as e:
                    raise AnalysisBroken("%s: cannot fold the matrix lookup of %s: %s" % (rule, fname, e))
        if roles_bad:
            R.finding(rule, fn, "operand roles", "the value must be compared with the lower bound and with the upper bound, (d, d1) and (d, d2); "
                      "found a comparison of operands %s" % (sorted(set(roles_bad))[:3],))
            continue
        got_all[fname] = got
        bad = {k: (got[k], want[k]) for k in want if got[k] != want[k]}
        if bad:
            R.finding(rule, fn, "matrix constant", "decoded range matrix differs from the documented table at (cmp(d,d1),cmp(d,d2)) -> (got, want): %s" % bad)
        else:
            R.ob(rule, "%s: 16 cells of the range matrix" % fname, True, sample={"rule": rule, "fn": fname, "cells": {"%d,%d" % k: v for k, v in got.items()}})
    if len(got_all) == 2:
        a, b = got_all.values()
        if a == b:
            R.ob(rule, "date and date-time range predicates agree", True)
        else:
            R.finding(rule, None, "sibling disagreement", "dt_d_in_range_p and dt_dt_in_range_p decode to different tables", file="lib/dt-core.c", line=1)


def _ceval_subst(expr, call, value, types):
    """fold expr with the sub-expression `call` replaced by a constant"""
    saved = dict(call)
    call.clear()
    call.update({"k": "IntegerLiteral", "v": value, "i": saved.get("i"), "t": saved.get("t")})
    try:
        return ceval(expr, {}, types)
    finally:
        call.clear()
        call.update(saved)


def check_dtest(P, R):
    rule = "RF2-dtest"
    tu = P.tu("dtest.c")
    fn = tu.func("main")
    if fn is None:
        raise AnalysisBroken("dtest main vanished")
    R.saw(fn)
    want = {"eq_flag": {0}, "ne_flag": {-1, 1}, "lt_flag": {-1}, "ot_flag": {-1}, "le_flag": {-1, 0},
            "gt_flag": {1}, "nt_flag": {1}, "ge_flag": {0, 1}}
    want_cmp = {0: 0, -1: 2, 1: 1}
    rcvar = None
    # the comparison must be dt_dtcmp(d1, d2) with the arguments in command-line order
    calls = list(fn.calls("dt_dtcmp"))
    if len(calls) != 1:
        raise AnalysisBroken("%s: dtest must call dt_dtcmp once" % rule)
    args = [expr_text(strip(a)) for a in call_args(calls[0])]
    defs = {}
    for x in fn.walk():
        if x.get("k") == "BinaryOperator" and x.get("op") == "=":
            l, r = strip(x["c"][0]), strip(x["c"][1])
            if l is not None and l.get("k") == "DeclRefExpr" and r is not None and r.get("k") == "CallExpr" and r.get("callee") == "dt_io_strpdt":
                defs[l["n"]] = expr_text(strip(call_args(r)[0]))
    if [defs.get(a) for a in args] == ["argi->args[0]", "argi->args[1]"]:
        R.ob(rule, "dt_dtcmp(first argument, second argument)", True)
    else:
        R.finding(rule, fn, "operand order", "dtest must compare args[0] with args[1]; found dt_dtcmp(%s) with %s" % (args, defs), calls[0])
    got = {}
    for x in fn.walk():
        if x.get("k") != "IfStmt":
            continue
        cond = strip(x["c"][0])
        flags = [y["n"] for y in walk(cond) if y.get("k") == "MemberExpr" and y.get("n", "").endswith("_flag")]
        flags = [f for f in flags if f in want or f == "cmp_flag"]
        if not flags:
            continue
        then = x["c"][1]
        if "cmp_flag" in flags:
            sw = [y for y in walk(then) if y.get("k") == "SwitchStmt"]
            if not sw:
                continue
            mp = {}
            for g in switch_cases(sw[0]):
                val = None
                for s in g["stmts"]:
                    for y in walk(s):
                        if y.get("k") == "BinaryOperator" and y.get("op") == "=":
                            val = const_of(y["c"][1])
                for l in g["labels"]:
                    if l["lo"] is not None:
                        mp[l["lo"]] = val
            got["cmp_flag"] = mp
            continue
        asg = [y for y in walk(then) if y.get("k") == "BinaryOperator" and y.get("op") == "="]
        if len(asg) != 1:
            continue
        lhs = strip(asg[0]["c"][0])
        acc = set()
        for cv in (-1, 0, 1):
            try:
                if ceval(asg[0]["c"][1], {lhs["d"]: cv}, tu.types) == 0:
                    acc.add(cv)
            except NotConst as e:
                raise AnalysisBroken("%s: cannot fold %s: %s" % (rule, expr_text(asg[0]), e))
        for f in flags:
            got[f] = acc
    for f, w in want.items():
        if f not in got:
            raise AnalysisBroken("%s: branch for --%s not found" % (rule, f[:-5]))
        if got[f] == w:
            R.ob(rule, "--%s accepts %s" % (f[:-5], sorted(w)), True, sample={"rule": rule, "option": f[:-5], "accepted cmp results": sorted(w)})
        else:
            R.finding(rule, fn, "--%s" % f[:-5], "--%s exits 0 for comparison results %s; expected %s" % (f[:-5], sorted(got[f]), sorted(w)))
    if got.get("cmp_flag") == want_cmp:
        R.ob(rule, "--cmp maps 0/-1/1 to exit 0/2/1", True)
    else:
        R.finding(rule, fn, "--cmp", "--cmp maps comparison results to exit codes %s; expected %s" % (got.get("cmp_flag"), want_cmp))


def check_dsort(P, R):
    rule = "RF2-dsort"
    tu = P.tu("dsort.c")
    pl = tu.func("proc_line")
    if pl is None:
        raise AnalysisBroken("dsort proc_line vanished")
    R.saw(pl)
    fmts = [strip(call_args(c)[2]).get("s") for c in pl.calls("dt_strfdt")]
    if fmts == ["%F", "%T"]:
        R.ob(rule, "keys are %F then %T (fixed width, zero padded: lexicographic = chronological)", True)
    else:
        R.finding(rule, pl, "key formats %s" % fmts, "dsort keys must be the fixed-width ISO formats %%F and %%T in this order; found %s" % fmts)
    seps = [const_of(x["c"][1]) for x in pl.walk() if x.get("k") == "BinaryOperator" and x.get("op") == "=" and
            strip(x["c"][0]).get("k") == "UnaryOperator" and const_of(x["c"][1]) is not None]
    sep = 1
    if seps.count(sep) >= 3 and seps[-1] == 10:
        R.ob(rule, "line, \\001, date key, \\001, time key, newline", True)
    else:
        R.finding(rule, pl, "key separators %s" % seps, "each line must be followed by \\001 <date> \\001 <time> \\n")
    # the time key is written for every value that has a time part: fold the guard of the %T key over the three kinds of values
    kinds = {"date only": {"sandwich": 0, "typ": 1}, "time only": {"sandwich": 1, "typ": 0}, "date and time": {"sandwich": 1, "typ": 1}}

    def subst(e, vals):
        if e is None:
            return None
        if e.get("k") == "MemberExpr" and e.get("n") in vals:
            return {"k": "IntegerLiteral", "v": vals[e["n"]], "t": e.get("t")}
        o = dict(e)
        if "c" in e:
            o["c"] = [subst(c, vals) if c is not None else None for c in e["c"]]
        return o

    def pred_value(cond, vals):
        c = strip(cond)
        if c is not None and c.get("k") == "UnaryOperator" and c.get("op") == "!":
            v = pred_value(c["c"][0], vals)
            return None if v is None else (not v)
        if c is not None and c.get("k") == "BinaryOperator" and c.get("op") in ("&&", "||"):
            a, b = pred_value(c["c"][0], vals), pred_value(c["c"][1], vals)
            if a is None or b is None:
                return None
            return (a and b) if c["op"] == "&&" else (a or b)
        if c is not None and c.get("k") == "CallExpr":
            f = tu.func(c.get("callee"))
            if f is None:
                return None
            rets = [r for r in f.walk() if r.get("k") == "ReturnStmt" and kids(r)]
            if len(rets) != 1:
                return None
            try:
                return bool(ceval(subst(kids(rets[0])[0], vals), {}, tu.types))
            except NotConst:
                return None
        return None
    tcalls = [c for c in pl.calls("dt_strfdt") if strip(call_args(c)[2]).get("s") == "%T"]
    if tcalls:
        gs = [g for g in guards_of(pl, tcalls[0]) if "pol" in g and any(y.get("k") == "CallExpr" and (y.get("callee") or "").startswith("dt_sandwich")
                                                                       for y in walk(g["cond"]))]
        for kind, vals in kinds.items():
            if kind == "date only":
                continue
            vs = [pred_value(g["cond"], vals) for g in gs]
            truth = all((v if g["pol"] else (not v)) for v, g in zip(vs, gs) if v is not None)
            if any(v is None for v in vs):
                raise AnalysisBroken("%s: guard of the time key not decodable" % rule)
            if truth:
                R.ob(rule, "time key written for %s values" % kind, True)
            else:
                R.finding(rule, pl, "time key for %s values" % kind, "the %%T key is not written for %s values: all of them get the same "
                          "empty key and come out in byte order of their text, not in time order" % kind, tcalls[0])
    for fname, want in (("spawn_sort", ["sort", "-t\x01", "-k2"]), ("spawn_cut", ["cut", "-d\x01", "-f1"])):
        g = tu.global_var("cmdline", fname)
        if g is None:
            raise AnalysisBroken("%s: cmdline of %s vanished" % (rule, fname))
        val = [v for v in (init_value(g.get("init")) or []) if isinstance(v, str)]
        if val[:3] == want:
            R.ob(rule, "%s runs %s" % (fname, " ".join(repr(x) for x in want)), True)
        else:
            R.finding(rule, tu.func(fname), "command line", "%s must run %s; found %s" % (fname, want, val))


def check(P, R, tier):
    check_raw_sets(P, R)
    n = 0
    n += check_sign_returns(P.func("date-core.c", "dt_dcmp"), R, ("d1", "d2"))
    n += check_sign_returns(P.func("dt-core.c", "dt_dtcmp"), R, ("d1", "d2"))
    n += check_sign_returns(P.func("date-core.c", "__ymcw_cmp"), R, ("d1", "d2"))
    tc = P.tu("time-core.c").func("dt_tcmp")
    if tc is not None:
        n += check_sign_returns(tc, R, ("t1", "t2"))
    R.floor("RF-sign", "three-way returns", n, 14)
    check_lex(P, R)
    roots = [P.func("date-core.c", "dt_dcmp"), P.func("dt-core.c", "dt_dtcmp"), P.func("date-core.c", "__ymcw_cmp")]
    nu = check_umod(P, R, roots)
    check_packed(P, R)
    check_epoch_sign(P, R)
    import cmpdecode
    ncmp = cmpdecode.run_parallel(R, P, "RF2-cmp", jobs=14)
    R.floor("RF2-cmp", "decoded comparisons", ncmp, 800000)
    check_range(P, R)
    check_dtest(P, R)
    check_dsort(P, R)


LEVEL = ("The order laws follow from comparing integers; what is decided is that the integers compared are the right ones: "
         "layout facts (bit-field significance) for every raw-compared representation, guard/return-sign agreement of every "
         "three-way comparison (CFG), field order of the ymcw comparison, absence of wrap-prone unsigned modulo, typestate "
         "of packed epoch values in dt_dtcmp (abstract interpretation), and three small tables decoded by constant folding "
         "over their finite domains (range matrix 16 cells, dtest options 3 results each, dsort constants).")
RULE = ("obligation = one raw-compared representation, one `return c` of a comparison, one modulo site, one tag run of "
        "dt_dtcmp, one decoded table, one dsort constant group")
ASSUME = ["sort(1) compares bytes under LC_ALL=C as set up by the tool's environment (child process not analysed)",
          "padding bits inside the compared words are zero (constructors zero-initialise)"]
