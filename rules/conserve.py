"""Polynomial symbolic summaries of loop-free arithmetic routines ("conservation" proofs).

A routine that splits or recombines a quantity (seconds into h:m:s and a day carry, a number into quotient and remainder)
is summarised by executing its statements over polynomials with integer coefficients:

  * a variable's value is a polynomial over input symbols;
  * x / K  is a fresh symbol  q(L, K)  determined by the operand polynomial L and the divisor K, and  x % K  is  L - K * q(L, K)
    (the C identity  L == (L / K) * K + L % K,  truncation toward zero; `/` and `%` of the same operand pair up by construction);
  * a comparison is a 0/1 symbol determined by the polynomial it tests: [P < 0]; `>=`, `>`, `<=` are expressed through it;
    c ? a : b  is  B*a + (1-B)*b;  an if statement forks the summary with B fixed to 1 resp. 0;
  * a call with a verified summary (divrem: floor quotient / non-negative remainder) returns summary symbols.

The client states the conserved quantity as polynomials over the entry and exit values and checks that their difference is
the zero polynomial on every path.  Machine overflow is not modelled (assumption recorded by the clients); ranges are the
interval engine's job.
"""
from core import AnalysisBroken, strip, kids, const_of, call_args, member_path, CASTS, walk

MAXPATHS = 64


class Poly(dict):
    """monomial (sorted tuple of symbols) -> coefficient"""

    @staticmethod
    def const(c):
        return Poly({(): c}) if c else Poly()

    @staticmethod
    def sym(s):
        return Poly({(s,): 1})

    def clean(self):
        return Poly({m: c for m, c in self.items() if c})

    def __add__(self, o):
        r = Poly(self)
        for m, c in o.items():
            r[m] = r.get(m, 0) + c
        return r.clean()

    def __neg__(self):
        return Poly({m: -c for m, c in self.items()})

    def __sub__(self, o):
        return self + (-o)

    def __mul__(self, o):
        r = Poly()
        for m1, c1 in self.items():
            for m2, c2 in o.items():
                syms = list(m1 + m2)
                # 0/1 symbols are idempotent: b * b = b
                seen, out = set(), []
                for sy in syms:
                    if isinstance(sy, tuple) and sy and sy[0] == "neg":
                        if sy in seen:
                            continue
                        seen.add(sy)
                    out.append(sy)
                m = tuple(sorted(out, key=repr))
                r[m] = r.get(m, 0) + c1 * c2
        return r.clean()

    def freeze(self):
        return tuple(sorted(self.items(), key=repr))

    def is_const(self):
        return all(m == () for m in self)

    def constval(self):
        return self.get((), 0)

    def subst(self, sym, val):
        """replace symbol by polynomial"""
        r = Poly()
        for m, c in self.items():
            term = Poly.const(c)
            for s in m:
                term = term * (val if s == sym else Poly.sym(s))
            r = r + term
        return r

    def symbols(self):
        return {s for m in self for s in m}

    def text(self, names=None):
        def sn(s):
            if isinstance(s, tuple) and s[0] == "in":
                k = s[1]
                if names:
                    return (names.get(k[0], "?") + "." + k[1]) if isinstance(k, tuple) else names.get(k, str(k))
                return str(k)
            if isinstance(s, tuple) and s[0] in ("q", "fq"):
                return "quot#%d" % (abs(hash(repr(s))) % 1000)
            if isinstance(s, tuple) and s[0] == "call":
                return "%s(%s)" % (s[1], ", ".join(s[2]))
            if isinstance(s, tuple) and s[0] == "opaque":
                return "call#%s" % s[1]
            if isinstance(s, tuple) and s[0] == "neg":
                return "[neg#%d]" % (abs(hash(repr(s))) % 1000)
            return str(s)
        parts = []
        for m, c in sorted(self.items(), key=repr):
            parts.append("%+d%s" % (c, "".join("*" + sn(s) for s in m)))
        return " ".join(parts) or "0"


def nz_sym(p):
    """0/1 value of [p != 0]; constants fold"""
    if p.is_const():
        return Poly.const(1 if p.constval() != 0 else 0)
    return Poly.sym(("neg", "nz", p.freeze()))          # kind "neg" = a 0/1 symbol (idempotent in products)


def neg_sym(p):
    """0/1 value of [p < 0]; constants fold"""
    if p.is_const():
        return Poly.const(1 if p.constval() < 0 else 0)
    return Poly.sym(("neg", p.freeze()))


def deep_subst(poly, sym, val):
    """replace the 0/1 symbol `sym` by the constant polynomial `val` everywhere, also inside the arguments of other 0/1 symbols:
    [h < 0] with h = a - [m < 0] becomes [a - 1 < 0] once [m < 0] is known to be 1 on a path"""
    def inner(t):
        if t == sym:
            return val
        if isinstance(t, tuple) and t and t[0] == "neg":
            fz = t[2] if len(t) == 3 and t[1] == "nz" else t[1]
            if isinstance(fz, tuple) and repr(sym) in repr(fz):
                p2 = deep_subst(Poly(dict(fz)), sym, val)
                return nz_sym(p2) if len(t) == 3 and t[1] == "nz" else neg_sym(p2)
        return Poly.sym(t)
    r = Poly()
    for m, c in poly.items():
        term = Poly.const(c)
        for t in m:
            term = term * inner(t)
        r = r + term
    return r


class Path:
    def __init__(self, env=None):
        self.env = dict(env or {})
        self.ret = None
        self.done = False

    def fork(self):
        p = Path(self.env)
        p.taken = list(getattr(self, "taken", []))
        return p


class Summariser:
    def __init__(self, fn, call_summaries=None):
        self.fn = fn
        self.tu = fn.tu
        self.calls = call_summaries or {}
        self.pure_calls = set()          # side-effect free callees: equal arguments give the same (opaque) value
        self.maxpaths = MAXPATHS
        self.lenient_if = False          # conditions that are not comparisons fork the summary without information
        self.names = {x["d"]: x.get("n") for x in fn.walk() if x.get("k") == "Var"}
        self.names.update({p["d"]: p["n"] for p in fn.params})
        self.fresh = 0

    # ---- keys
    def key(self, e):
        e = strip(e)
        while e is not None and e.get("k") in CASTS and e.get("c"):
            e = strip(e["c"][0])
        if e is None:
            return None
        if e.get("k") == "DeclRefExpr" and e.get("dk") in ("var", "parm"):
            return e["d"]
        if e.get("k") == "MemberExpr":
            b, path = member_path(e)
            if b is not None and b.get("k") == "DeclRefExpr" and b.get("dk") in ("var", "parm") and path and "[]" not in path:
                return (b["d"], ".".join(p for p in path if p))
        return None

    def read(self, key, path):
        if key in path.env:
            return path.env[key]
        return Poly.sym(("in", key))

    # ---- expressions
    def ev(self, e, path):
        e = strip(e)
        if e is None:
            raise AnalysisBroken("empty expression")
        k = e.get("k")
        if k in CASTS or k == "ParenExpr":
            return self.ev(e["c"][0], path)
        c = const_of(e)
        if c is not None and k != "DeclRefExpr":
            return Poly.const(c)
        if k == "DeclRefExpr" and (e.get("dk") == "enum" or ("v" in e and e.get("dk") not in ("var", "parm"))):
            return Poly.const(e["v"])
        key = self.key(e)
        if key is not None:
            return self.read(key, path)
        if k == "UnaryOperator":
            op = e.get("op")
            if op == "-":
                return -self.ev(e["c"][0], path)
            if op == "+":
                return self.ev(e["c"][0], path)
            if op == "!":
                v = self.ev(e["c"][0], path)
                # !x for a 0/1 value, else 1 - [x != 0]
                if self._boolean(v):
                    return Poly.const(1) - v
                return Poly.const(1) - nz_sym(v)
        if k == "BinaryOperator":
            op = e.get("op")
            if op == ",":
                self.ev(e["c"][0], path)
                return self.ev(e["c"][1], path)
            if op == "=":
                v = self.ev(e["c"][1], path)
                self.store(e["c"][0], v, path)
                return v
            a, b = self.ev(e["c"][0], path), self.ev(e["c"][1], path)
            if op == "+":
                return a + b
            if op == "-":
                return a - b
            if op == "*":
                return a * b
            if op in ("/", "%"):
                q = self.quot(a, b)
                return q if op == "/" else a - b * q
            if op == "<":
                return neg_sym(a - b)
            if op == ">=":
                return Poly.const(1) - neg_sym(a - b)
            if op == ">":
                return neg_sym(b - a)
            if op == "<=":
                return Poly.const(1) - neg_sym(b - a)
            if op == "&&" and self._boolean(a) and self._boolean(b):
                return a * b
        if k == "CompoundAssignOperator":
            op = e.get("op", "")[:-1]
            cur = self.ev(e["c"][0], path)
            b = self.ev(e["c"][1], path)
            if op == "+":
                v = cur + b
            elif op == "-":
                v = cur - b
            elif op == "*":
                v = cur * b
            elif op in ("/", "%"):
                q = self.quot(cur, b)
                v = q if op == "/" else cur - b * q
            else:
                raise AnalysisBroken("compound operator %s=" % op)
            self.store(e["c"][0], v, path)
            return v
        if k == "ConditionalOperator":
            c_ = self.ev(e["c"][0], path)
            if not self._boolean(c_):
                c_ = nz_sym(c_)
            a, b = self.ev(e["c"][1], path), self.ev(e["c"][2], path)
            return c_ * a + (Poly.const(1) - c_) * b
        if k == "UnaryOperator" and e.get("op") in ("++", "--"):
            cur = self.ev(e["c"][0], path)
            v = cur + Poly.const(1 if e["op"] == "++" else -1)
            self.store(e["c"][0], v, path)
            return cur if e.get("postfix") else v
        if k == "CallExpr":
            cal = e.get("callee")
            if cal == "__builtin_expect":
                return self.ev(call_args(e)[0], path)
        if k == "MemberExpr":
            # member of a call result with a summary
            inner = strip(e["c"][0])
            if inner is not None and inner.get("k") == "CallExpr" and inner.get("callee") in self.calls:
                vals = self.calls[inner["callee"]](self, inner, path)
                return vals[e["n"]]
        if k == "CallExpr" and e.get("callee") and e.get("callee") in self.pure_calls:
            from core import expr_text
            return Poly.sym(("call", e["callee"], tuple(expr_text(strip(a)) for a in call_args(e))))
        self.fresh += 1
        return Poly.sym(("opaque", e.get("i", self.fresh)))

    def _boolean(self, p):
        """polynomials built from [.. < 0] symbols by 1-x, products: accept forms whose symbols are all `neg` symbols or constants 0/1"""
        syms = p.symbols()
        return all(isinstance(s, tuple) and s[0] == "neg" for s in syms) and (syms or p.constval() in (0, 1))

    def quot(self, a, b):
        if a.is_const() and b.is_const() and b.constval() != 0:
            x, y = a.constval(), b.constval()
            q = abs(x) // abs(y) * (1 if (x >= 0) == (y >= 0) else -1)
            return Poly.const(q)
        return Poly.sym(("q", a.freeze(), b.freeze()))

    def store(self, lhs, val, path):
        key = self.key(lhs)
        if key is None:
            raise AnalysisBroken("store to an lvalue the summariser cannot name: %s" % (strip(lhs) or {}).get("k"))
        path.env[key] = val

    # ---- statements
    def run(self, stmts, paths):
        for s in stmts:
            live = [p for p in paths if not p.done]
            if not live:
                break
            paths = [p for p in paths if p.done] + self.stmt(s, live)
            if len(paths) > self.maxpaths:
                raise AnalysisBroken("too many paths in %s" % self.fn.name)
        return paths

    def stmt(self, s, paths):
        k = s.get("k")
        if k == "CompoundStmt":
            return self.run(kids(s), paths)
        if k == "NullStmt":
            return paths
        if k == "DeclStmt":
            for v in kids(s):
                if v.get("k") != "Var":
                    continue
                ini = kids(v)[0] if kids(v) else None
                for p in paths:
                    if ini is None:
                        continue
                    i0 = strip(ini)
                    if i0 is not None and i0.get("k") == "InitListExpr":
                        self._init_record(v, i0, p)
                    elif i0 is not None and i0.get("k") == "CallExpr" and i0.get("callee") in self.calls:
                        for f, val in self.calls[i0["callee"]](self, i0, p).items():
                            p.env[(v["d"], f)] = val
                    else:
                        t = self.tu.types[v["t"]]
                        if t.get("int") or t.get("ptr"):
                            p.env[v["d"]] = self.ev(ini, p)
            return paths
        if k == "ForStmt":
            # the one-trip `with (decls)` idiom: for (decls, *flag = (void*)1; flag; flag = 0) body
            init, cond, inc, body = s["c"][0], s["c"][2] if len(s["c"]) > 4 else s["c"][1], s["c"][-2], s["c"][-1]
            cv = strip(cond) if cond is not None else None
            flag = cv.get("d") if cv is not None and cv.get("k") == "DeclRefExpr" else None
            okshape = False
            if flag is not None and init is not None and init.get("k") == "DeclStmt":
                for v in kids(init):
                    if v.get("k") == "Var" and v.get("d") == flag and kids(v) and const_of(kids(v)[0]) not in (None, 0):
                        okshape = True
                iz = strip(inc) if inc is not None else None
                if not (iz is not None and iz.get("k") == "BinaryOperator" and iz.get("op") == "=" and strip(iz["c"][0]).get("d") == flag
                        and const_of(iz["c"][1]) == 0):
                    okshape = False
            if not okshape:
                raise AnalysisBroken("loop in %s is outside the summariser" % self.fn.name)
            paths = self.stmt(init, paths)
            return self.stmt(body, paths)
        if k == "IfStmt":
            out = []
            for p in paths:
                try:
                    c = self.ev(s["c"][0], p)          # may have side effects (assignment in the condition)
                except AnalysisBroken:
                    if not self.lenient_if:
                        raise
                    c = None
                if c is not None and not self._boolean(c):
                    c = nz_sym(c)              # truth of an integer: the 0/1 symbol [value != 0]
                for val, branch in ((1, s["c"][1]), (0, s["c"][2] if len(s["c"]) > 2 else None)):
                    q = p.fork()
                    q.taken = list(getattr(p, "taken", [])) + [(s.get("i"), val)]
                    ok = self.assume(q, c, val) if c is not None else True
                    if not ok:
                        continue
                    if branch is not None:
                        out += self.stmt(branch, [q])
                    else:
                        out.append(q)
            return out
        if k == "ReturnStmt":
            for p in paths:
                if kids(s):
                    r0 = strip(kids(s)[0])
                    while r0 is not None and r0.get("k") in CASTS + ("CompoundLiteralExpr",) and r0.get("c"):
                        r0 = strip(r0["c"][0])
                    if r0 is not None and r0.get("k") == "InitListExpr":
                        p.ret = self._record_value(kids(s)[0], r0, p)
                    elif r0 is not None and r0.get("k") == "DeclRefExpr" and not (self.tu.types[r0["t"]].get("int") or self.tu.types[r0["t"]].get("ptr")):
                        p.ret = {kk[1]: v for kk, v in p.env.items() if isinstance(kk, tuple) and kk[0] == r0["d"]}
                    else:
                        p.ret = self.ev(kids(s)[0], p)
                p.done = True
            return paths
        if k in ("BinaryOperator", "CompoundAssignOperator", "UnaryOperator", "CallExpr"):
            for p in paths:
                if k == "BinaryOperator" and s.get("op") == "=":
                    r0 = strip(s["c"][1])
                    l0 = strip(s["c"][0])
                    if r0 is not None and r0.get("k") == "CallExpr" and r0.get("callee") in self.calls and l0.get("k") == "DeclRefExpr" \
                            and not (self.tu.types[l0["t"]].get("int") or self.tu.types[l0["t"]].get("ptr")):
                        for f, val in self.calls[r0["callee"]](self, r0, p).items():
                            p.env[(l0["d"], f)] = val
                        continue
                if k == "CallExpr":
                    continue
                self.ev(s, p)
            return paths
        raise AnalysisBroken("statement kind %s in %s is outside the summariser" % (k, self.fn.name))

    def assume(self, path, c, val):
        """fix the 0/1 polynomial c to val on this path: only single `neg` symbols (possibly as 1 - neg) are fixed"""
        syms = list(c.symbols())
        if not syms:
            return c.constval() == val
        if len(syms) == 1 and c in (Poly.sym(syms[0]), Poly.const(1) - Poly.sym(syms[0])):
            sv = val if c == Poly.sym(syms[0]) else 1 - val
            for kk in list(path.env):
                v = path.env[kk]
                if isinstance(v, Poly) and repr(syms[0]) in repr(v):
                    path.env[kk] = deep_subst(v, syms[0], Poly.const(sv))
            path.env[("fixed", syms[0])] = Poly.const(sv)
            return True
        return True        # compound conditions: no information used

    def _init_record(self, var, ini, path):
        t = self.tu.types[var["t"]]
        rec = self.tu.recs_by_id.get(t.get("rec")) if t.get("rec") is not None else None
        if rec is None:
            return
        fields = [f["n"] for f in rec["fields"]]
        for f, e in zip(fields, kids(ini)):
            ft = None
            try:
                path.env[(var["d"], f)] = self.ev(e, path)
            except AnalysisBroken:
                pass

    def _record_value(self, node, ini, path):
        n0 = strip(node)
        t = self.tu.types[n0["t"]] if n0 is not None and n0.get("t") is not None else {}
        rec = self.tu.recs_by_id.get(t.get("rec")) if t.get("rec") is not None else None
        if rec is None:
            raise AnalysisBroken("returned record type not found")
        return {f["n"]: self.ev(e, path) for f, e in zip(rec["fields"], kids(ini))}

    def summarise(self):
        paths = self.run(kids(self.fn.body), [Path()])
        return [p for p in paths if p.done]


def inp(key):
    return Poly.sym(("in", key))
