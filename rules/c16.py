"""C16 — dateround lands on the nearest requested target and is idempotent.

That the result is the nearest date/time with the requested field value, for every input, is a value-level statement and is NOT
decided.  Decided are structural necessary conditions of it in src/dround.c:

 RF-4way      every value-rounding sibling (hour, minute, second in tround_tdur; day of month, business day, month, weekday, ISO
              week in dround_ddur) is the same four-way decision on one field F and one target T:
                (forward && F < T) || (backward && F > T)   -> no carry
                F == T && !next                              -> on the target already, stays
                forward                                      -> carry into the next coarser field, upwards only
                otherwise                                    -> borrow from the next coarser field, downwards only
              with the same F and T in all three tests, the direction flag meaning what its definition says, increments only on
              the forward side and decrements only on the backward side, a carry going into the field directly above F, wrap
              constants being that field's size (24 hours, 60 minutes, 12 months), and a goto leaving a forward branch landing in a
              forward branch
 RF-same      on the two paths that do not carry, the value stored into F is the value F was compared with: a target that is
              clamped to the length of the period (day 31 in February, week 53 in a 52-week year, business day 23) must be
              clamped before it is compared, or a value already on the (clamped) target is not recognised as such -- `--next`
              then leaves it unchanged and a backward rounding leaves the target it is on
 RF-cocl      both co-class roundings (seconds since midnight, epoch seconds) refuse a zero divisor and one that does not divide
              the day before the remainder is taken (CFG dominance), take the remainder of the value being rounded by that
              divisor, leave the value untouched when the remainder is zero and --next is not given, and otherwise move by
              (divisor - remainder) up, by the divisor down from a multiple, by the remainder down
 RF-reasm     seconds since midnight are split back with the constants they were packed with (60, 60, 24; 86400 on underflow);
              months since year 0 likewise (12, +-1); a quarter is 3 and a year 12 months
 RF-weekend   co-class business-day rounding moves a weekend day to Friday (backward) or Monday (forward) exactly
 RF-fresh     a looked-up period length is used for the period it was looked up for: no write, on any path between the look-up
              and the use, to a field the look-up read (a month length taken before the year moves on)
 RF2-round    dround_ddur decoded (rules/rounddecode.py): for year-month-day dates of the 21 class years, every day-of-month, month
              and weekday target, both directions, with and without --next, the result is the nearest date on the requested side
              with that field value (a day the month lacks being its last day), finer fields kept; rounding the result again
              returns it; week dates x ISO week targets 1..53 (helper slot included) and business-day dates x business-day
              targets 1..23 likewise; tround_tdur and tround_tdur_cocl decoded likewise (gotos followed) on a grid of times that puts every
              field on, next to and away from every boundary, for every hour / minute / second value target and every co-class
              divisor of the day, with the day carry
 RF-carry     dt_round adds the day carry of the time rounding to the date, resets it, and only then rounds the date
"""
from core import (AnalysisBroken, strip, kids, const_of, call_args, expr_text, walk, CASTS, switch_cases, ceval, NotConst)
from c04 import _lin, _key

UNIT = "dround-dround.o"
# field (last two path components) -> (field directly above, size of the field above's unit in this field's carry test)
ABOVE = {"hms.s": "hms.m", "hms.m": "hms.h", "hms.h": "carry", "ymd.d": "ymd.m", "bizda.bd": "bizda.m", "ymd.m": "ymd.y", "ywd.c": "ywd.y",
         "wday": "week"}
SIZE = {"hms.h": 24, "hms.m": 60, "ymd.m": 12, "bizda.m": 12}
STEPPERS = {"dt_dadd_y": ".y", "dt_dadd_m": ".m"}


def _u(e):
    e = strip(e)
    while e is not None and e.get("k") in CASTS and e.get("c"):
        e = strip(e["c"][0])
    return e


def _lin2(fn, e):
    """linear form that also reads enumerators and unary minus"""
    e = _u(e)
    if e is None:
        return None
    if e.get("k") == "DeclRefExpr" and e.get("dk") not in ("var", "parm") and const_of(e) is not None:
        return {1: const_of(e)} if const_of(e) else {}
    if e.get("k") == "UnaryOperator" and e.get("op") == "-":
        a = _lin2(fn, e["c"][0])
        return None if a is None else {k: -v for k, v in a.items()}
    if e.get("k") == "BinaryOperator" and e.get("op") in ("+", "-"):
        a, b = _lin2(fn, e["c"][0]), _lin2(fn, e["c"][1])
        if a is None or b is None:
            return None
        out = dict(a)
        for k, v in b.items():
            out[k] = out.get(k, 0) + (v if e["op"] == "+" else -v)
        return {k: v for k, v in out.items() if v}
    return _lin(fn, e, {})


def _field(e):
    """short name of a field expression: last two member names, or the variable name"""
    e = _u(e)
    if e is None:
        return None
    if e.get("k") == "DeclRefExpr":
        return e.get("n")
    if e.get("k") == "MemberExpr":
        names = []
        x = e
        while x is not None and x.get("k") == "MemberExpr":
            if x.get("n"):
                names.append(x["n"])
            x = _u(x["c"][0]) if x.get("c") else None
        names.reverse()
        return ".".join(names[-2:])
    return None


def _bool_param(fn):
    """the --next flag: the one parameter of boolean type (its name is not relied upon)"""
    out = []
    for p_ in fn.params:
        t = fn.tu.types[p_["t"]]
        txt = (t.get("s") or "") + " " + " ".join(t.get("td") or [])
        if "bool" in txt or "_Bool" in txt:
            out.append(p_)
    if len(out) != 1:
        raise AnalysisBroken("%s: the boolean --next parameter was not found" % fn.name)
    return out[0]["d"]


def _var_from_call(fn, callee):
    """local initialised or assigned from a call of `callee`"""
    for x in fn.walk():
        if x.get("k") == "Var" and kids(x) and _u(kids(x)[0]) is not None and _u(kids(x)[0]).get("callee") == callee:
            return x["d"]
        if x.get("k") == "BinaryOperator" and x.get("op") == "=" and _u(x["c"][1]) is not None and _u(x["c"][1]).get("callee") == callee:
            l = _u(x["c"][0])
            if l is not None and l.get("k") == "DeclRefExpr":
                return l["d"]
    return None


def _pred(e):
    """direction predicate: (decl id, polarity)"""
    e = _u(e)
    pol = True
    while e is not None and e.get("k") == "UnaryOperator" and e.get("op") == "!":
        pol = not pol
        e = _u(e["c"][0])
    if e is not None and e.get("k") == "DeclRefExpr":
        return (e["d"], pol, e.get("n"))
    return None


def _conj(e, op):
    e = _u(e)
    if e is not None and e.get("k") == "BinaryOperator" and e.get("op") == op:
        return _conj(e["c"][0], op) + _conj(e["c"][1], op)
    return [e]


def _forward_when_true(fn, d, name):
    """what the definition of the direction flag says: True if flag == true means forward, False if it means backward"""
    votes = set()
    for x in fn.walk():
        rhs = None
        if x.get("k") == "BinaryOperator" and x.get("op") == "=" and _u(x["c"][0]) is not None and _u(x["c"][0]).get("d") == d:
            rhs = _u(x["c"][1])
        elif x.get("k") == "Var" and x.get("d") == d and kids(x):
            rhs = _u(kids(x)[0])
        if rhs is None:
            continue
        # forw = !dt_dur_neg_p(dur)
        p, pol = rhs, True
        while p is not None and p.get("k") == "UnaryOperator" and p.get("op") == "!":
            pol = not pol
            p = _u(p["c"][0])
        if p is not None and p.get("k") == "CallExpr" and p.get("callee") == "dt_dur_neg_p":
            votes.add(not pol)
            continue
        v = const_of(rhs)
        if v is None:
            raise AnalysisBroken("RF-4way: definition of direction flag %s in %s not recognised: %s" % (name, fn.name, expr_text(rhs)))
        # the guard under which the constant is assigned
        par, child, guard = fn.parent(x), x, None
        while par is not None:
            if par.get("k") == "IfStmt" and par["c"][0] is not child:
                guard = (par, child is par["c"][1] or any(y is x for y in walk(par["c"][1])))
                break
            child, par = par, fn.parent(par)
        if guard is None:
            if x.get("k") == "Var":
                continue        # initial value
            raise AnalysisBroken("RF-4way: unguarded assignment to direction flag %s in %s" % (name, fn.name))
        ifs, in_then = guard
        sense = _sign_sense(ifs, in_then)
        if sense is None:
            raise AnalysisBroken("RF-4way: guard of the assignment to %s in %s not recognised: %s" % (name, fn.name, expr_text(_u(ifs["c"][0]))))
        # flag = v under `amount is positive` (sense True) / negative (sense False)
        votes.add(bool(v) == sense)
    if len(votes) != 1:
        raise AnalysisBroken("RF-4way: direction flag %s of %s: definitions disagree or are missing (%s)" % (name, fn.name, votes))
    return votes.pop()


def _sign_sense(ifs, in_then):
    """True if this branch of the if is taken for a positive amount, False for a negative one (or the .neg flag)"""
    c = _u(ifs["c"][0])
    if c is None:
        return None
    if c.get("k") == "BinaryOperator" and c.get("op") in (">", "<") and const_of(c["c"][1]) == 0:
        pos = c["op"] == ">"
        return pos if in_then else None
    if c.get("k") == "MemberExpr" and c.get("n") == "neg":
        return False if in_then else None
    return None


class Site:
    pass


def _sites(fn):
    out = []
    for x in fn.walk():
        if x.get("k") != "IfStmt":
            continue
        c = _u(x["c"][0])
        if c is None or c.get("k") != "BinaryOperator" or c.get("op") != "||":
            continue
        alts = [_conj(a, "&&") for a in (c["c"][0], c["c"][1])]
        if not all(len(a) == 2 for a in alts):
            continue
        s = Site()
        s.ifs, s.alts = x, alts
        out.append(s)
    return out


def _signs(fn, branch):
    """(+1/-1, node, target field) for every step in a branch"""
    out = []
    for y in walk(branch):
        if y.get("k") == "UnaryOperator" and y.get("op") in ("++", "--"):
            out.append((1 if y["op"] == "++" else -1, y, _field(y["c"][0])))
        elif y.get("k") == "CompoundAssignOperator" and y.get("op") in ("+=", "-=") and const_of(y["c"][1]) is not None:
            v = const_of(y["c"][1]) * (1 if y["op"] == "+=" else -1)
            if v:
                out.append((1 if v > 0 else -1, y, _field(y["c"][0])))
        elif y.get("k") == "BinaryOperator" and y.get("op") == "=" and _field(y["c"][0]) is not None and _field(y["c"][0]).endswith("carry") \
                and const_of(y["c"][1]) in (1, -1):
            out.append((const_of(y["c"][1]), y, "carry"))
        elif y.get("k") == "BinaryOperator" and y.get("op") == "=":
            # a step made through the library's adder of that field: `d = dt_dadd_y(d, 1)` (which keeps helper slots up to date)
            r = _u(y["c"][1])
            if r is not None and r.get("k") == "CallExpr" and r.get("callee") in STEPPERS and len(call_args(r)) == 2:
                v = const_of(call_args(r)[1])
                if v is None:
                    try:
                        v = ceval(call_args(r)[1], {}, fn.tu.types)
                    except NotConst:
                        v = None
                if v:
                    out.append((1 if v > 0 else -1, y, "*" + STEPPERS[r["callee"]]))
    return sorted(out, key=lambda t: t[1]["i"])


def check_fourway(P, R, tu):
    rule = "RF-4way"
    nsites = 0
    labels = {}     # label name -> direction of the branch it sits in
    gotos = []
    per_fn = {}
    for name in ("tround_tdur", "dround_ddur"):
        fn = tu.func(name)
        if fn is None:
            raise AnalysisBroken("%s vanished" % name)
        R.saw(fn)
        nextd = _bool_param(fn)
        sites = _sites(fn)
        per_fn[name] = (fn, sites)
        for s in sites:
            nsites += 1
            (p1, c1), (p2, c2) = [(a[0], a[1]) for a in s.alts]
            P1, P2 = _pred(p1), _pred(p2)
            c1, c2 = _u(c1), _u(c2)
            where = "%s: `%s`" % (name, expr_text(_u(s.ifs["c"][0]))[:70])
            if P1 is None or P2 is None or c1 is None or c2 is None or c1.get("k") != "BinaryOperator" or c2.get("k") != "BinaryOperator":
                raise AnalysisBroken("%s: rounding decision not recognised: %s" % (rule, where))
            F1, T1, F2, T2 = expr_text(_u(c1["c"][0])), expr_text(_u(c1["c"][1])), expr_text(_u(c2["c"][0])), expr_text(_u(c2["c"][1]))
            s.F, s.T, s.Fnode, s.Tnode = F1, T1, _u(c1["c"][0]), _u(c1["c"][1])
            s.field = _field(c1["c"][0])
            if s.Fnode.get("k") == "DeclRefExpr":
                s.field = "wday" if s.Fnode.get("d") == _var_from_call(fn, "dt_get_wday") else "local " + str(s.Fnode.get("n"))
            site = "%s %s" % (name, s.field)
            s.site = site
            ok = True
            if (F1, T1) != (F2, T2):
                R.finding(rule, fn, site + " no-carry test", "the two halves of the no-carry test compare different things: `%s` with `%s`, `%s` "
                          "with `%s`" % (F1, T1, F2, T2), s.ifs)
                ok = False
            if {c1.get("op"), c2.get("op")} != {"<", ">"}:
                R.finding(rule, fn, site + " no-carry test", "the no-carry test must be strictly-below going forward and strictly-above going "
                          "backward; it uses `%s` and `%s`: a value on the target would be taken as before / after it" % (c1.get("op"), c2.get("op")), s.ifs)
                ok = False
            if P1[0] != P2[0] or P1[1] == P2[1]:
                R.finding(rule, fn, site + " no-carry test", "the two halves must be guarded by the direction flag and its negation", s.ifs)
                ok = False
            if not ok:
                continue
            fwt = _forward_when_true(fn, P1[0], P1[2])
            below = P1 if c1["op"] == "<" else P2        # predicate attached to F < T
            if (below[1] == fwt):
                R.ob(rule, "%s: F < T is the forward half, F > T the backward half" % site, True)
            else:
                R.finding(rule, fn, site + " direction", "`%s < %s` is attached to the backward direction (flag %s means %s when true): values "
                          "before the target carry, values after it do not" % (F1, T1, P1[2], "forward" if fwt else "backward"), s.ifs)
                continue
            # second test
            e2 = s.ifs["c"][2] if len(s.ifs["c"]) > 2 else None
            if e2 is None or e2.get("k") != "IfStmt":
                R.finding(rule, fn, site + " on-target test", "no `on the target already` test follows the no-carry test", s.ifs)
                continue
            parts = _conj(e2["c"][0], "&&")
            eq = [p_ for p_ in parts if p_ is not None and p_.get("k") == "BinaryOperator" and p_.get("op") == "=="]
            nx = [_pred(p_) for p_ in parts if _pred(p_) is not None]
            good_eq = len(eq) == 1 and {expr_text(_u(eq[0]["c"][0])), expr_text(_u(eq[0]["c"][1]))} == {F1, T1}
            good_nx = len(nx) == 1 and nx[0][0] == nextd and nx[0][1] is False
            if len(parts) == 2 and good_eq and good_nx:
                R.ob(rule, "%s: stays when F == T and --next is not given" % site, True)
            else:
                R.finding(rule, fn, site + " on-target test", "the second test must be `%s == %s && !nextp`, it is `%s`: a value on the target "
                          "moves without --next, or stays with it" % (F1, T1, expr_text(_u(e2["c"][0]))), e2)
                continue
            s.on = e2
            e3 = e2["c"][2] if len(e2["c"]) > 2 else None
            P3 = _pred(e3["c"][0]) if e3 is not None and e3.get("k") == "IfStmt" else None
            if P3 is None or P3[0] != P1[0] or len(e3["c"]) < 3 or e3["c"][2] is None:
                if e3 is not None and any(y.get("k") == "ConditionalOperator" and (_pred(y["c"][0]) or (None,))[0] == P1[0] for y in walk(e3)):
                    # the two arms folded into one statement (`diff += forw ? 7 : -7`): which way each steps is a matter of the
                    # values, which RF2-round decides by decoding every target of this kind in both directions; no verdict here
                    R.notes.append("%s: %s: the carry is one statement with a conditional expression on the direction flag (arms not "
                                   "compared structurally; decided by RF2-round)" % (rule, site))
                    continue
                R.finding(rule, fn, site + " carry branches", "the carry must branch on the direction flag into a forward and a backward arm", e2)
                continue
            fwd, bwd = (e3["c"][1], e3["c"][2]) if P3[1] == fwt else (e3["c"][2], e3["c"][1])
            s.fwd, s.bwd = fwd, bwd
            for arm, want, what in ((fwd, 1, "forward"), (bwd, -1, "backward")):
                sg = _signs(fn, arm)
                for y in walk(arm):
                    if y.get("k") == "LabelStmt":
                        labels[y.get("label")] = want
                    if y.get("k") == "GotoStmt":
                        gotos.append((fn, site, y.get("label"), want, y))
                if not sg:
                    R.finding(rule, fn, site + " %s arm" % what, "the %s arm does not step the next coarser field" % what, arm)
                    continue
                bad = [t for t in sg if t[0] != want]
                if bad:
                    R.finding(rule, fn, site + " %s arm" % what, "the %s arm steps `%s` the wrong way" % (what, expr_text(bad[0][1])), bad[0][1])
                    continue
                above = ABOVE.get(s.field)
                if above is None and s.field.startswith("local "):
                    # the field compared is a local the rule cannot name (a weekday worked out by hand, say): what lies above it is
                    # not looked up; the values are decided by RF2-round
                    R.notes.append("%s: %s: the compared field is a local computed in place; the arm's step is not compared with the "
                                   "table of coarser fields (decided by RF2-round)" % (rule, site))
                    continue
                if above is None:
                    raise AnalysisBroken("%s: field %s has no entry in the table of next coarser fields" % (rule, s.field))
                first = sg[0][2]
                okf = (first == above) or (above == "carry" and first == "carry") or (first.startswith("*") and above.endswith(first[1:])) or \
                    (above == "week" and not first.startswith("*") and abs(const_of(sg[0][1]["c"][1]) or 0) == 7)
                if okf:
                    R.ob(rule, "%s: the %s arm steps %s, the field above" % (site, what, above), True)
                else:
                    R.finding(rule, fn, site + " %s arm" % what, "the %s arm steps `%s` first; the field directly above %s is %s" %
                              (what, first, s.field, above), sg[0][1])
                # wrap constants
                for y in walk(arm):
                    if y.get("k") != "IfStmt":
                        continue
                    c = _u(y["c"][0])
                    if c is None:
                        continue
                    wrapf = size = None
                    if c.get("k") == "BinaryOperator" and c.get("op") in (">=", "<", ">") and const_of(c["c"][1]) is not None:
                        l = _u(c["c"][0])
                        stepped = l is not None and l.get("k") == "UnaryOperator"
                        wrapf = _field(l["c"][0]) if stepped else _field(l)
                        k = const_of(c["c"][1])
                        if stepped and l.get("postfix"):
                            # the compared value is the one before the step: express the test in terms of the stepped value
                            k += 1 if l.get("op") == "++" else -1
                        if want == 1 and stepped and c["op"] == ">=":          # ++X >= K -> X = 0
                            size, reset, expect = k, _assigned(y["c"][1], wrapf), 0
                        elif want == 1 and stepped and c["op"] == ">":         # ++X > K -> X = 1 (1-based)
                            size, reset, expect = k, _assigned(y["c"][1], wrapf), 1
                        elif want == 1 and not stepped and c["op"] == "<":     # X < K -> X++ else X = 1
                            size, reset, expect = k, _assigned(y["c"][2], wrapf) if len(y["c"]) > 2 else None, 1
                        elif want == -1 and stepped and c["op"] == "<" and k == 1:   # --X < 1 -> X = K
                            size = reset = _assigned(y["c"][1], wrapf)
                            expect = size
                        else:
                            continue
                    elif c.get("k") == "UnaryOperator" and c.get("op") == "!":      # !X-- -> X = K - 1
                        l = _u(c["c"][0])
                        if l is None or l.get("k") != "UnaryOperator" or l.get("op") != "--" or want != -1:
                            continue
                        if not l.get("postfix"):
                            # !--X is `the stepped value is 0`: one too early for a field that counts from 0
                            R.finding(rule, fn, site + " %s wrap of %s" % (what, _field(l["c"][0])), "the borrow test `%s` looks at the stepped "
                                      "value; the field wraps when the value *before* the step is 0" % expr_text(c), y)
                            continue
                        wrapf = _field(l["c"][0])
                        reset = _assigned(y["c"][1], wrapf)
                        size, expect = (reset + 1 if reset is not None else None), reset
                    else:
                        continue
                    need = SIZE.get(wrapf)
                    if need is None:
                        raise AnalysisBroken("%s: wrap of %s in %s: field size unknown" % (rule, wrapf, site))
                    if size == need and reset == expect:
                        R.ob(rule, "%s: %s wrap of %s uses %d" % (site, what, wrapf, need), True)
                    else:
                        R.finding(rule, fn, site + " %s wrap of %s" % (what, wrapf), "the %s wrap of %s uses size %s and resets to %s; the field "
                                  "has %d values" % (what, wrapf, size, reset, need), y)
    for fn, site, lab, want, node in gotos:
        if lab not in labels:
            continue        # the sibling holding the label was reported above and not analysed further
        if labels.get(lab) == want:
            R.ob(rule, "%s: goto %s stays on the %s side" % (site, lab, "forward" if want > 0 else "backward"), True)
        else:
            R.finding(rule, fn, site + " goto " + str(lab), "a %s carry continues at `%s`, which sits in a %s arm" %
                      ("forward" if want > 0 else "backward", lab, {1: "forward", -1: "backward", None: "non-carry"}.get(labels.get(lab))), node)
    R.floor(rule, "value-rounding siblings", nsites, 8)
    return per_fn


def _assigned(branch, field):
    """constant assigned to `field` in a branch"""
    if branch is None:
        return None
    for y in walk(branch):
        if y.get("k") == "BinaryOperator" and y.get("op") == "=" and _field(y["c"][0]) == field:
            return const_of(y["c"][1])
    return None


# ------------------------------------------------------------------ RF-same: compared value = stored value on the no-carry paths
def _sym(e, env):
    e = _u(e)
    if e is None:
        return ("?",)
    if e.get("k") == "DeclRefExpr":
        if e.get("d") in env:
            return env[e["d"]]
        c = const_of(e)
        return c if c is not None and e.get("dk") not in ("var", "parm") else ("v", e.get("n"))
    c = const_of(e)
    if c is not None:
        return c
    if e.get("k") == "MemberExpr":
        return ("m", expr_text(e))
    if e.get("k") == "CallExpr":
        return ("call", e.get("callee"), tuple(_sym(a, env) for a in call_args(e)))
    if e.get("k") == "ConditionalOperator":
        c, a, b = _u(e["c"][0]), _sym(e["c"][1], env), _sym(e["c"][2], env)
        if c is not None and c.get("k") == "BinaryOperator" and c.get("op") in ("<", "<=", ">", ">="):
            l, r = _sym(c["c"][0], env), _sym(c["c"][1], env)
            if {repr(l), repr(r)} == {repr(a), repr(b)}:
                smaller_first = c["op"] in ("<", "<=")
                pick_l = repr(a) == repr(l)
                if smaller_first == pick_l:
                    return _min(l, r)
                return ("max", frozenset({repr(l), repr(r)}))
        return ("?", expr_text(e))
    if e.get("k") == "BinaryOperator" and e.get("op") in ("+", "-", "*"):
        return ("op", e["op"], _sym(e["c"][0], env), _sym(e["c"][1], env))
    return ("?", expr_text(e))


def _min(a, b):
    if repr(a) == repr(b):
        return a
    return ("min", tuple(sorted((a, b), key=repr)))


def _run(stmts, env, stop_field, out):
    """straight-line symbolic run; records the value stored into stop_field (or added to anything, for a local F)"""
    for s in stmts:
        k = s.get("k")
        if k == "CompoundStmt":
            _run(kids(s), env, stop_field, out)
        elif k == "LabelStmt":
            _run(kids(s), env, stop_field, out)
        elif k == "DeclStmt":
            for v in kids(s):
                if v.get("k") == "Var" and kids(v):
                    env[v["d"]] = _sym(kids(v)[0], env)
        elif k == "BinaryOperator" and s.get("op") == "=":
            l = _u(s["c"][0])
            if l is not None and l.get("k") == "DeclRefExpr":
                env[l["d"]] = _sym(s["c"][1], env)
            elif _field(l) == stop_field and "stored" not in out:
                out["stored"] = _sym(s["c"][1], env)
        elif k == "CompoundAssignOperator" and s.get("op") in ("+=", "-="):
            l = _u(s["c"][0])
            if l is not None and l.get("k") == "DeclRefExpr":
                env[l["d"]] = ("op", s["op"][0], env.get(l["d"], ("v", l.get("n"))), _sym(s["c"][1], env))
            elif "added" not in out and s["op"] == "+=":
                out["added"] = _sym(s["c"][1], env)
        elif k == "IfStmt":
            # `if (a > b) a = b` -- a clamp
            c = _u(s["c"][0])
            body = [y for y in ([s["c"][1]] if s["c"][1].get("k") != "CompoundStmt" else kids(s["c"][1]))]
            els = s["c"][2] if len(s["c"]) > 2 else None
            done = False
            if c is not None and c.get("k") == "BinaryOperator" and c.get("op") in (">", ">=", "<", "<=") and els is None and len(body) == 1 \
                    and body[0].get("k") == "BinaryOperator" and body[0].get("op") == "=":
                a, b = _u(c["c"][0]), _u(c["c"][1])
                if c["op"] in ("<", "<="):
                    a, b = b, a           # a > b
                l, r = _u(body[0]["c"][0]), _u(body[0]["c"][1])
                if l is not None and a is not None and b is not None and expr_text(l) == expr_text(a) and expr_text(r) == expr_text(b):
                    val = _min(_sym(a, env), _sym(b, env))
                    if l.get("k") == "DeclRefExpr":
                        env[l["d"]] = val
                        done = True
                    elif _field(l) == stop_field:
                        # F itself is clamped after having been stored: the stored value becomes the minimum
                        out["stored"] = _min(out["stored"], _sym(b, env)) if "stored" in out else val
                        done = True
                    else:
                        # clamp of an unrelated field (a finer one): not part of this rule
                        done = True
            if not done:
                writes = [y for y in walk(s) if (y.get("k") in ("BinaryOperator", "CompoundAssignOperator") and y.get("op", "").endswith("=")
                                                 and y.get("op") not in ("==", "!=", "<=", ">=")) or
                          (y.get("k") == "UnaryOperator" and y.get("op") in ("++", "--"))]
                relevant = [y for y in writes if (_u(y["c"][0]) is not None and _u(y["c"][0]).get("d") in env) or _field(y["c"][0]) == stop_field]
                if relevant:
                    raise AnalysisBroken("RF-same: a conditional update of `%s` on the no-carry path is not a recognised clamp" %
                                         expr_text(_u(relevant[0]["c"][0])))
        elif k in ("BreakStmt", "GotoStmt", "ReturnStmt"):
            return False
    return True


def check_same(P, R, per_fn):
    rule = "RF-same"
    n = 0
    for name, (fn, sites) in per_fn.items():
        for s in sites:
            if not hasattr(s, "on"):
                continue
            # statements of the enclosing block, before and after the decision
            blk = fn.parent(s.ifs)
            while blk is not None and blk.get("k") == "LabelStmt":
                blk = fn.parent(blk)
            if blk is None or blk.get("k") not in ("CompoundStmt", "CaseStmt", "DefaultStmt", "SwitchStmt"):
                raise AnalysisBroken("%s: %s: enclosing block of the rounding decision not recognised (%s)" % (rule, s.site, blk and blk.get("k")))
            seq = _flat_case(fn, s.ifs)
            idx = [i for i, y in enumerate(seq) if y is s.ifs or any(z is s.ifs for z in walk(y))]
            if not idx:
                raise AnalysisBroken("%s: %s: decision not found in its block" % (rule, s.site))
            i = idx[0]
            local_f = s.Fnode.get("k") == "DeclRefExpr"
            for which, branch in (("no-carry", s.ifs["c"][1]), ("on-target", s.on["c"][1])):
                env, out = {}, {}
                _run(seq[:i], env, None, {})
                tested = _sym(s.Tnode, env)
                fval = _sym(s.Fnode, env)
                # no writes to anything but F on the branch itself
                _run([branch], env, s.field, out)
                _run(seq[i + 1:], env, s.field, out)
                n += 1
                if local_f:
                    want = ("op", "-", tested, fval)
                    got = out.get("added")
                    good = got is not None and repr(got) == repr(want)
                    desc = "the amount added is target - value"
                else:
                    got = out.get("stored")
                    good = got is not None and repr(got) == repr(tested)
                    desc = "the value stored is the value compared with"
                if got is None:
                    raise AnalysisBroken("%s: %s (%s path): the store into %s was not found" % (rule, s.site, which, s.F))
                if good:
                    R.ob(rule, "%s (%s path): %s" % (s.site, which, desc), True)
                else:
                    R.finding(rule, fn, "%s %s path" % (s.site, which), "`%s` is compared with %s but what is stored on the path that does not "
                              "carry is %s: a value that already sits on the stored target is not recognised as being on it, so --next "
                              "leaves it unchanged and a backward rounding leaves the target it is on" % (s.F, _show(tested), _show(got)), s.ifs)
    R.floor(rule, "no-carry paths of the value-rounding siblings", n, 16)


def _flat_case(fn, node):
    """the statement sequence of the innermost case the node belongs to (labels unwrapped), or of its compound"""
    child, par = node, fn.parent(node)
    while par is not None and par.get("k") in ("LabelStmt",):
        child, par = par, fn.parent(par)
    if par is None:
        return [node]
    if par.get("k") == "CompoundStmt":
        gp = fn.parent(par)
        if gp is not None and gp.get("k") == "SwitchStmt":
            for g in switch_cases(gp):
                if any(y is child or any(z is child for z in walk(y)) for y in g["stmts"]):
                    return g["stmts"]
        return kids(par)
    if par.get("k") in ("CaseStmt", "DefaultStmt"):
        sw = par
        while sw is not None and sw.get("k") != "SwitchStmt":
            sw = fn.parent(sw)
        for g in switch_cases(sw):
            if any(y is child or any(z is child for z in walk(y)) for y in g["stmts"]):
                return g["stmts"]
    return [node]


def _show(s):
    if isinstance(s, tuple):
        if s[0] == "min":
            return "min(%s)" % ", ".join(_show(a) for a in s[1])
        if s[0] in ("v", "m"):
            return s[1]
        if s[0] == "call":
            return "%s(%s)" % (s[1], ", ".join(_show(a) for a in s[2]))
        if s[0] == "op":
            return "(%s %s %s)" % (_show(s[2]), s[1], _show(s[3]))
    return str(s)


# ------------------------------------------------------------------ RF-cocl
def check_cocl(P, R, tu):
    rule = "RF-cocl"
    for name in ("tround_tdur_cocl", "sxround_dur_cocl"):
        fn = tu.func(name)
        if fn is None:
            raise AnalysisBroken("%s vanished" % name)
        R.saw(fn)
        cfg = fn.cfg
        # the remainder of the value by the divisor
        diff = [v for v in fn.walk() if v.get("k") == "Var" and kids(v) and _u(kids(v)[0]) is not None and _u(kids(v)[0]).get("k") == "BinaryOperator"
                and _u(kids(v)[0]).get("op") == "%" and const_of(_u(kids(v)[0])["c"][1]) is None]
        if len(diff) != 1:
            raise AnalysisBroken("%s: remainder variable of %s not found" % (rule, name))
        diff = diff[0]
        rem = _u(kids(diff)[0])
        if rem is None or rem.get("k") != "BinaryOperator" or rem.get("op") != "%":
            raise AnalysisBroken("%s: %s: the remainder is not a %% expression" % (rule, name))
        xv, dv = _u(rem["c"][0]), _u(rem["c"][1])
        if xv is not None and xv.get("k") == "BinaryOperator" and xv.get("op") == "+" and dv is not None:
            # the remainder counted from the multiple below, for values of either sign: ((x % d) + d) % d
            a_, b_ = _u(xv["c"][0]), _u(xv["c"][1])
            if a_ is not None and a_.get("k") == "BinaryOperator" and a_.get("op") == "%" and b_ is not None \
                    and expr_text(b_) == expr_text(dv) and expr_text(_u(a_["c"][1])) == expr_text(dv):
                xv = _u(a_["c"][0])
        # the value being rounded: the first parameter (epoch seconds) or the local packed from hours, minutes and seconds
        if name == "sxround_dur_cocl":
            xd = fn.params[0]["d"]
        else:
            xd = _packed_var(fn)
        xname = expr_text(xv)
        if xv.get("d") == xd and dv.get("k") == "DeclRefExpr":
            R.ob(rule, "%s: remainder of the value being rounded (%s) by the divisor (%s)" % (name, xname, dv.get("n")), True)
        else:
            R.finding(rule, fn, "remainder", "the remainder must be that of the value being rounded by the divisor, it is `%s`" % expr_text(rem), rem)
            continue
        sd = dv["d"]
        # gates: zero divisor and non-dividing divisor, both dominating the remainder
        zero = dayg = None
        for x in fn.walk():
            if x.get("k") != "IfStmt":
                continue
            c = _u(x["c"][0])
            if c is not None and c.get("k") == "UnaryOperator" and c.get("op") == "!":
                inner = _u(c["c"][0])
                if inner is not None and inner.get("k") == "BinaryOperator" and inner.get("op") == "=" and _u(inner["c"][0]).get("d") == sd:
                    zero = x
                if inner is not None and inner.get("k") == "BinaryOperator" and inner.get("op") == "%" and const_of(inner["c"][0]) == 86400 \
                        and _u(inner["c"][1]).get("d") == sd:
                    dayg = x
            # the same test given a name: a predicate that returns `!(86400 % its parameter)`, called with the divisor
            if c is not None and c.get("k") == "CallExpr" and len(call_args(c)) == 1 and (_u(call_args(c)[0]) or {}).get("d") == sd:
                h = tu.func(c.get("callee") or "")
                if h is not None and getattr(h, "body", None) is not None and len(h.params) == 1:
                    for r_ in h.walk():
                        if r_.get("k") == "ReturnStmt" and kids(r_):
                            e_ = _u(kids(r_)[0])
                            if e_ is not None and e_.get("k") == "UnaryOperator" and e_.get("op") == "!":
                                i_ = _u(e_["c"][0])
                                if i_ is not None and i_.get("k") == "BinaryOperator" and i_.get("op") == "%" and const_of(i_["c"][0]) == 86400 \
                                        and (_u(i_["c"][1]) or {}).get("d") == h.params[0]["d"]:
                                    dayg = x
        for gate, what in ((zero, "a zero divisor"), (dayg, "a divisor that does not divide the day (86400 % divisor)")):
            if gate is None:
                R.finding(rule, fn, "gate: " + what, "%s does not refuse %s before taking the remainder" % (name, what))
                continue
            # the remainder is reached only through the gate: block dominance, and the refusing edge leaves the value untouched
            gb, rb = cfg.stmt_block(_u(gate["c"][0])["i"]), cfg.stmt_block(rem["i"])
            if gb is None or rb is None:
                raise AnalysisBroken("%s: %s: gate or remainder not in the CFG" % (rule, name))
            gb, rb = gb[0], rb[0]
            raw = cfg.blocks[gb]["s"]
            if len(raw) != 2 or raw[0] is None or raw[1] is None:
                raise AnalysisBroken("%s: %s: gate block has no two-way branch" % (rule, name))
            # the refusing edge: condition true for the zero test, condition false for the divides-the-day test
            refuse = raw[0] if gate is zero else raw[1]
            if cfg.dominates(gb, rb) and rb not in cfg.reachable_from(refuse):
                R.ob(rule, "%s: the remainder is reached only through the accepting edge of the test for %s" % (name, what), True)
            else:
                R.finding(rule, fn, "gate: " + what, "the remainder can be reached without passing the test for %s, or through its refusing "
                          "edge" % what, gate)
        # zero gate leaves: then-branch jumps out
        if zero is not None and not _leaves(zero["c"][1]):
            R.finding(rule, fn, "gate: a zero divisor", "the zero-divisor branch must leave the function with the value untouched", zero)
        if dayg is not None:
            # `if (!(86400 % sdur)) break;` then falls into the default that leaves
            thn = dayg["c"][1]
            if not any(y.get("k") == "BreakStmt" for y in walk(thn)):
                R.finding(rule, fn, "gate: divides the day", "only a divisor of the day may continue to the rounding", dayg)
        # the decision
        chain = None
        for x in fn.walk():
            if x.get("k") == "IfStmt" and x["i"] > diff["i"]:
                chain = x
                break
        if chain is None:
            raise AnalysisBroken("%s: %s: decision after the remainder not found" % (rule, name))
        parts = [_pred(p_) for p_ in _conj(chain["c"][0], "&&")]
        nextd = _bool_param(fn)
        if len(parts) == 2 and all(p_ is not None for p_ in parts) and {(p_[0], p_[1]) for p_ in parts} == {(diff["d"], False), (nextd, False)} \
                and _leaves(chain["c"][1]) and not _writes_any(chain["c"][1]):
            R.ob(rule, "%s: a multiple stays untouched unless --next" % name, True)
        else:
            R.finding(rule, fn, "on-target", "the first decision must be `!diff && !nextp` and leave the value untouched; it is `%s`" %
                      expr_text(_u(chain["c"][0])), chain)
            continue
        e2 = chain["c"][2] if len(chain["c"]) > 2 else None
        e3 = e2["c"][2] if e2 is not None and e2.get("k") == "IfStmt" and len(e2["c"]) > 2 else None
        if e2 is None or e3 is None or e3.get("k") != "IfStmt" or len(e3["c"]) < 3 or e3["c"][2] is None:
            R.finding(rule, fn, "moves", "the three moves (up, down from a multiple, down) are not all there", chain)
            continue
        P2, P3 = _pred(e2["c"][0]), _pred(e3["c"][0])
        downd = [v for v in fn.walk() if v.get("k") == "Var" and P2 is not None and v.get("d") == P2[0]]
        ok2 = P2 is not None and downd and P2[1] is False
        ok3 = P3 is not None and P3[0] == diff["d"] and P3[1] is False
        xk = _key(fn, xv)
        moves = []
        for br in (e2["c"][1], e3["c"][1], e3["c"][2]):
            st = [y for y in walk(br) if y.get("k") == "CompoundAssignOperator"]
            if len(st) != 1 or _key(fn, st[0]["c"][0]) != xk:
                moves.append(None)
                continue
            lf = _lin(fn, st[0]["c"][1], {})
            if lf is not None and st[0]["op"] == "-=":
                lf = {k: -v for k, v in lf.items()}
            moves.append(lf)
        want = [{sd: 1, diff["d"]: -1}, {sd: -1}, {diff["d"]: -1}]
        if ok2 and ok3 and moves == want:
            R.ob(rule, "%s: up by divisor - remainder, down from a multiple by the divisor, down by the remainder" % name, True)
        else:
            R.finding(rule, fn, "moves", "the moves must be: going up += divisor - remainder; going down from a multiple -= divisor; going down "
                      "-= remainder; found %s under `%s` / `%s`" % (moves, expr_text(_u(e2["c"][0])), expr_text(_u(e3["c"][0]))), e2)
        # direction flag
        if downd and _forward_when_true(fn, downd[0]["d"], downd[0].get("n")) is False:
            R.ob(rule, "%s: downp is set for a negative divisor or the .neg flag" % name, True)
        else:
            R.finding(rule, fn, "direction", "downp must mean `backward`")


def _leaves(branch):
    last = branch
    while last is not None and last.get("k") == "CompoundStmt" and kids(last):
        last = kids(last)[-1]
    return last is not None and last.get("k") in ("GotoStmt", "ReturnStmt")


def _writes_any(branch):
    for y in walk(branch):
        if y.get("k") == "CompoundAssignOperator" or (y.get("k") == "BinaryOperator" and y.get("op") == "=") or \
                (y.get("k") == "UnaryOperator" and y.get("op") in ("++", "--")):
            return True
    return False


def _packed_var(fn):
    """the local that receives hours, minutes and seconds packed into one number"""
    for x in sorted(fn.walk(), key=lambda n: n.get("i", 0)):
        if x.get("k") == "BinaryOperator" and x.get("op") == "=":
            l = _u(x["c"][0])
            if l is not None and l.get("k") == "DeclRefExpr" and {"hms.h", "hms.m", "hms.s"} <= {_field(y) for y in walk(x["c"][1]) if y.get("k") == "MemberExpr"}:
                return l["d"]
    raise AnalysisBroken("%s: packing of seconds since midnight not found" % fn.name)


# ------------------------------------------------------------------ RF-reasm
def check_reasm(P, R, tu):
    rule = "RF-reasm"
    fn = tu.func("tround_tdur_cocl")
    # pack: tunp = (h * A + m) * B + s
    pack = None
    tunp = _packed_var(fn)
    for x in sorted(fn.walk(), key=lambda n: n.get("i", 0)):
        if x.get("k") == "BinaryOperator" and x.get("op") == "=" and _u(x["c"][0]).get("d") == tunp:
            pack = _u(x["c"][1])
            break
    A = B = None
    if pack is not None and pack.get("k") == "BinaryOperator" and pack.get("op") == "+" and _field(pack["c"][1]) == "hms.s":
        m1 = _u(pack["c"][0])
        if m1.get("k") == "BinaryOperator" and m1.get("op") == "*":
            B = const_of(m1["c"][1])
            inner = _u(m1["c"][0])
            if inner.get("k") == "BinaryOperator" and inner.get("op") == "+" and _field(inner["c"][1]) == "hms.m":
                m2 = _u(inner["c"][0])
                if m2.get("k") == "BinaryOperator" and m2.get("op") == "*" and _field(m2["c"][0]) == "hms.h":
                    A = const_of(m2["c"][1])
    if A is None or B is None:
        raise AnalysisBroken("%s: packing of seconds since midnight not recognised" % rule)
    # unpack: field = tunp % K, tunp /= K, in order
    seq = []
    for x in sorted((y for y in fn.walk() if y.get("i", 0) > pack["i"]), key=lambda y: y["i"]):
        if x.get("k") == "BinaryOperator" and x.get("op") == "=" and _field(x["c"][0]) in ("hms.s", "hms.m", "hms.h"):
            r = _u(x["c"][1])
            if r is not None and r.get("k") == "BinaryOperator" and r.get("op") == "%" and _u(r["c"][0]).get("d") == tunp:
                seq.append((_field(x["c"][0]), "%", const_of(r["c"][1])))
        if x.get("k") == "CompoundAssignOperator" and x.get("op") == "/=" and _u(x["c"][0]).get("d") == tunp:
            seq.append(("tunp", "/", const_of(x["c"][1])))
    want = [("hms.s", "%", B), ("tunp", "/", B), ("hms.m", "%", A), ("tunp", "/", A), ("hms.h", "%", 24), ("tunp", "/", 24)]
    if seq == want and A * B * 24 == 86400:
        R.ob(rule, "tround_tdur_cocl: packed with (%d, %d), split with (%d, %d, 24)" % (A, B, B, A), True)
    else:
        R.finding(rule, fn, "split of seconds since midnight", "packed as (h * %s + m) * %s + s but split by %s" % (A, B, seq))
    # carry accumulates the whole days left
    carry = [x for x in fn.walk() if x.get("k") == "CompoundAssignOperator" and x.get("op") == "+=" and (_field(x["c"][0]) or "").endswith("carry")
             and _u(x["c"][1]).get("d") == tunp]
    under = [x for x in fn.walk() if x.get("k") == "IfStmt" and _u(x["c"][0]) is not None and _u(x["c"][0]).get("k") == "BinaryOperator" and
             _u(x["c"][0]).get("op") == "<" and _u(_u(x["c"][0])["c"][0]).get("d") == tunp and const_of(_u(x["c"][0])["c"][1]) == 0]
    good_under = False
    for x in under:
        add = [y for y in walk(x["c"][1]) if y.get("k") == "CompoundAssignOperator" and y.get("op") == "+=" and const_of(y["c"][1]) == 86400]
        cr = [y for y in walk(x["c"][1]) if y.get("k") == "BinaryOperator" and y.get("op") == "=" and (_field(y["c"][0]) or "").endswith("carry")
              and const_of(y["c"][1]) == -1]
        good_under = bool(add and cr)
    if carry and good_under:
        R.ob(rule, "tround_tdur_cocl: underflow borrows one day of 86400 s, whole days go to the carry", True)
    else:
        R.finding(rule, fn, "day carry", "an underflow must add 86400 and set the carry to -1, and the days left after the split must be added to the carry")
    # months
    fn = tu.func("dround_ddur_cocl")
    if fn is None:
        raise AnalysisBroken("dround_ddur_cocl vanished")
    R.saw(fn)
    packm = None
    for x in sorted(fn.walk(), key=lambda n: n.get("i", 0)):
        if x.get("k") == "BinaryOperator" and x.get("op") == "=" and _u(x["c"][0]).get("k") == "DeclRefExpr" and \
                any(y.get("k") == "BinaryOperator" and y.get("op") == "*" and _u(y["c"][0]).get("k") == "MemberExpr" for y in walk(x["c"][1])):
            packm = x
            break
    if packm is None:
        raise AnalysisBroken("%s: packing of months since year 0 not found" % rule)
    ym = _u(packm["c"][0])["d"]
    lf = None
    if packm is not None:
        r = _u(packm["c"][1])
        # y * 12 + m - 1
        terms = {}

        def acc(e, sign):
            e = _u(e)
            if e.get("k") == "BinaryOperator" and e.get("op") in ("+", "-"):
                acc(e["c"][0], sign)
                acc(e["c"][1], sign if e["op"] == "+" else -sign)
            elif e.get("k") == "BinaryOperator" and e.get("op") == "*" and const_of(e["c"][1]) is not None:
                terms[_field(e["c"][0]).split(".")[-1]] = sign * const_of(e["c"][1])
            elif const_of(e) is not None:
                terms[1] = terms.get(1, 0) + sign * const_of(e)
            else:
                terms[_field(e).split(".")[-1]] = sign
        acc(r, 1)
        lf = terms
    un = {}
    for x in fn.walk():
        if x.get("k") == "BinaryOperator" and x.get("op") == "=" and _field(x["c"][0]) in ("ymd.y", "ymd.m") and packm is not None and x["i"] > packm["i"]:
            r = _u(x["c"][1])
            if r.get("k") == "BinaryOperator" and r.get("op") == "/" and _u(r["c"][0]).get("d") == ym:
                un["y"] = ("/", const_of(r["c"][1]), 0)
            elif r.get("k") == "BinaryOperator" and r.get("op") == "+" and _u(r["c"][0]).get("k") == "BinaryOperator" and _u(r["c"][0]).get("op") == "%":
                un["m"] = ("%", const_of(_u(r["c"][0])["c"][1]), const_of(r["c"][1]))
            elif r.get("k") == "BinaryOperator" and r.get("op") == "%":
                un["m"] = ("%", const_of(r["c"][1]), 0)
    if lf == {"y": 12, "m": 1, 1: -1} and un == {"y": ("/", 12, 0), "m": ("%", 12, 1)}:
        R.ob(rule, "dround_ddur_cocl: months since year 0 packed as 12 y + m - 1, split as / 12 and % 12 + 1", True)
    else:
        R.finding(rule, fn, "months since year 0", "packed as %s, split as %s; the two must invert each other (12 y + m - 1; / 12, %% 12 + 1)" % (lf, un))
    # unit factors: year = 12, quarter = 3 months (product along the fall-through)
    sw = [s_ for s_ in fn.switches() if _field(s_["c"][0]) == "dur.durtyp" or (expr_text(_u(s_["c"][0])) or "").endswith("durtyp")]
    if not sw:
        raise AnalysisBroken("%s: unit switch of dround_ddur_cocl not found" % rule)
    factor, prod = {}, {}
    sdur_ds = set()
    groups = switch_cases(sw[0])
    names = ("DT_DURYR", "DT_DURQU", "DT_DURMO")
    order = []
    for g in groups:
        labs = [l["en"] for l in g["labels"]]
        if any(l in names for l in labs):
            f = 1
            for s_ in g["stmts"]:
                if s_.get("k") == "CompoundAssignOperator" and s_.get("op") == "*=" and _u(s_["c"][0]).get("k") == "DeclRefExpr":
                    f *= const_of(s_["c"][1])
                    sdur_ds.add(_u(s_["c"][0])["d"])
            fall = not any(y.get("k") == "BreakStmt" for s_ in g["stmts"] for y in ([s_] if s_.get("k") == "BreakStmt" else []))
            order.append((labs, f, fall))
    mult = {}
    for i, (labs, f, fall) in enumerate(order):
        p = 1
        for labs2, f2, fall2 in order[i:]:
            p *= f2
            if not fall2:
                break
        for l in labs:
            mult[l] = p
    sdur_d = sdur_ds.pop() if len(sdur_ds) == 1 else None
    if mult.get("DT_DURYR") == 12 and mult.get("DT_DURQU") == 3 and mult.get("DT_DURMO") == 1:
        R.ob(rule, "dround_ddur_cocl: a year is 12 months, a quarter 3", True)
    else:
        R.finding(rule, fn, "unit factors", "co-class rounding takes a year as %s and a quarter as %s months" % (mult.get("DT_DURYR"), mult.get("DT_DURQU")))
    # remainder pairing: of = ym % sdur; ym -= of; forward: ym += sdur
    of = [x for x in fn.walk() if x.get("k") == "BinaryOperator" and x.get("op") == "=" and _u(x["c"][0]).get("k") == "DeclRefExpr" and
          _u(x["c"][1]) is not None and _u(x["c"][1]).get("k") == "BinaryOperator" and _u(x["c"][1]).get("op") == "%" and _u(_u(x["c"][1])["c"][0]).get("d") == ym]
    good = False
    if of:
        r = _u(of[0]["c"][1])
        ofd = _u(of[0]["c"][0])["d"]
        if _u(r["c"][1]).get("d") == sdur_d and sdur_d is not None:
            sub = [x for x in fn.walk() if x.get("k") == "CompoundAssignOperator" and x.get("op") == "-=" and _u(x["c"][0]).get("d") == ym
                   and _u(x["c"][1]).get("d") == ofd]
            add = [x for x in fn.walk() if x.get("k") == "CompoundAssignOperator" and x.get("op") == "+=" and _u(x["c"][0]).get("d") == ym
                   and _u(x["c"][1]).get("d") == sdur_d]
            good = len(sub) == 1 and len(add) == 1 and sub[0]["i"] < add[0]["i"]
    if good:
        R.ob(rule, "dround_ddur_cocl: rounds down by the remainder, then up by the divisor when going forward", True)
    else:
        R.finding(rule, fn, "month co-class", "the month count must lose its remainder by the divisor (ym -= ym %% sdur) and gain the divisor going forward")


# ------------------------------------------------------------------ RF-weekend
def check_weekend(P, R, tu):
    rule = "RF-weekend"
    fn = tu.func("dround_ddur_cocl")
    en = {k: tu.enum_value(k) for k in ("DT_MONDAY", "DT_FRIDAY", "DT_SATURDAY", "DT_SUNDAY")}
    if None in en.values():
        raise AnalysisBroken("%s: weekday enumerators not found" % rule)
    # the amount added to the day count
    added = [x for x in fn.walk() if x.get("k") == "CompoundAssignOperator" and x.get("op") == "+=" and (_field(x["c"][0]) or "").endswith("daisy")
             and _u(x["c"][1]).get("k") == "DeclRefExpr"]
    if len(added) != 1:
        raise AnalysisBroken("%s: the move of the day count in dround_ddur_cocl was not found" % rule)
    diffd = _u(added[0]["c"][1])["d"]
    asg = [x for x in fn.walk() if x.get("k") == "BinaryOperator" and x.get("op") == "=" and _u(x["c"][0]).get("d") == diffd]
    forms = []
    for x in asg:
        lf = _lin2(fn, x["c"][1])
        forms.append((x, lf))
    w = _var_from_call(fn, "dt_get_wday")
    if len(forms) != 2 or w is None or any(lf is None for _, lf in forms):
        raise AnalysisBroken("%s: weekend moves of dround_ddur_cocl not recognised (%s)" % (rule, [lf for _, lf in forms]))
    lands = sorted(lf.get(1, 0) for _, lf in forms if lf.get(w) == -1 and set(lf) <= {1, w})
    # value + diff: Friday going back, Monday of next week going forward
    if lands == sorted([en["DT_FRIDAY"], 7 + en["DT_MONDAY"]]):
        R.ob(rule, "a weekend day moves to Friday (backward) or to Monday of the next week (forward)", True)
    else:
        R.finding(rule, fn, "weekend moves", "a weekend day must land on weekday %d going back and on %d (Monday next week) going forward; "
                  "the moves land on %s" % (en["DT_FRIDAY"], 7 + en["DT_MONDAY"], lands))
    # which is which, and the guard
    for x, lf in forms:
        par, child = fn.parent(x), x
        while par is not None and par.get("k") != "IfStmt":
            child, par = par, fn.parent(par)
        if par is None:
            raise AnalysisBroken("%s: weekend move outside a direction test" % rule)
        in_then = any(y is x for y in walk(par["c"][1]))
        c = expr_text(_u(par["c"][0]))
        backward_branch = in_then and ("< 0" in c or "neg" in c)
        back_move = lf.get(1, 0) == en["DT_FRIDAY"]
        if backward_branch == back_move:
            R.ob(rule, "the move to %s is taken going %s" % ("Friday" if back_move else "Monday", "backward" if back_move else "forward"), True)
        else:
            R.finding(rule, fn, "weekend direction", "the move to %s is taken going %s" % ("Friday" if back_move else "Monday",
                                                                                          "forward" if back_move else "backward"), x)
    guard = [x for x in fn.walk() if x.get("k") == "IfStmt" and _u(x["c"][0]) is not None and _u(x["c"][0]).get("k") == "BinaryOperator" and
             _u(_u(x["c"][0])["c"][0]).get("d") == w]
    c = _u(guard[0]["c"][0]) if guard else None
    if c is not None and ((c.get("op") == ">=" and const_of(c["c"][1]) == en["DT_SATURDAY"]) or (c.get("op") == ">" and const_of(c["c"][1]) == en["DT_FRIDAY"])):
        R.ob(rule, "only Saturday and Sunday are moved", True)
    else:
        R.finding(rule, fn, "weekend guard", "only weekdays from Saturday on may be moved")


# ------------------------------------------------------------------ RF-carry
def check_carry(P, R, tu):
    rule = "RF-carry"
    fn = tu.func("dt_round")
    if fn is None:
        raise AnalysisBroken("dt_round vanished")
    R.saw(fn)
    tcalls = [c for c in fn.calls() if c.get("callee") in ("tround_tdur", "tround_tdur_cocl")]
    dcalls = [c for c in fn.calls() if c.get("callee") in ("dround_ddur", "dround_ddur_cocl")]
    if len(tcalls) != 2 or len(dcalls) != 2:
        raise AnalysisBroken("%s: rounding calls of dt_round not found" % rule)
    test = [x for x in fn.walk() if x.get("k") == "IfStmt" and (_field(x["c"][0]) or "").endswith("carry")]
    if len(test) != 1:
        R.finding(rule, fn, "carry test", "dt_round must test the day carry of the time rounding exactly once")
        return
    test = test[0]
    mk = [c for c in walk(test["c"][1]) if c.get("k") == "CallExpr" and c.get("callee") == "dt_make_ddur"]
    add = [c for c in walk(test["c"][1]) if c.get("k") == "CallExpr" and c.get("callee") == "dt_dadd"]
    reset = [y for y in walk(test["c"][1]) if y.get("k") == "BinaryOperator" and y.get("op") == "=" and (_field(y["c"][0]) or "").endswith("carry")
             and const_of(y["c"][1]) == 0]
    good = (len(mk) == 1 and len(add) == 1 and reset and const_of(call_args(mk[0])[0]) == tu.enum_value("DT_DURD")
            and (_field(call_args(mk[0])[1]) or "").endswith("carry") and mk[0]["i"] < reset[0]["i"])
    # the result of the addition goes back into the date
    stored = any(y.get("k") == "BinaryOperator" and y.get("op") == "=" and expr_text(_u(y["c"][0])) == "d.d" and any(z is add[0] for z in walk(y["c"][1]))
                 for y in walk(test["c"][1])) if add else False
    if good and stored:
        R.ob(rule, "the carry is added to the date as that many days and then reset", True)
    else:
        R.finding(rule, fn, "carry consumption", "the day carry must be turned into a DT_DURD duration of `carry` days, added to the date with "
                  "dt_dadd, stored back and reset", test)
    order = all(t["i"] < test["i"] for t in tcalls) and all(test["i"] < d_["i"] for d_ in dcalls)
    if order:
        R.ob(rule, "time rounding, then carry, then date rounding", True)
    else:
        R.finding(rule, fn, "order", "the carry must be consumed after the time has been rounded and before the date is", test)


def check_fresh(P, R, tu):
    """RF-fresh: a period length (days of the month, business days of the month, weeks of the year) that a rounding clamps with was
    looked up for the period the result is in: between the look-up and the use nothing the look-up read is written on any path"""
    import fresh
    rule = "RF-fresh"
    n = 0
    for name in ("dround_ddur", "dround_ddur_cocl", "dt_round"):
        fn = tu.func(name)
        if fn is None:
            raise AnalysisBroken("%s vanished" % name)
        found, uses = fresh.stale_lengths(fn)
        n += uses
        bad = {}
        for d_, u_, w_, hit in found:
            bad.setdefault((d_["i"], w_["i"]), (d_, u_, w_, hit))
        for d_, u_, w_, hit in bad.values():
            R.finding(rule, fn, "%s after `%s`" % (expr_text(_u(d_["c"][1])) if d_.get("k") == "BinaryOperator" else d_.get("n"), expr_text(w_)),
                      "the length looked up at %s is used at %s after `%s` (%s) has changed `%s`, which the look-up read: on that path it is "
                      "the length of a period the value is no longer in" % (fn.where(d_), fn.where(u_), expr_text(w_), fn.where(w_), hit), u_)
        if not bad and uses:
            R.ob(rule, "%s: %d uses of looked-up period lengths, none after a write to what the look-up read" % (name, uses), True)
    R.floor(rule, "uses of looked-up period lengths in the rounding routines", n, 10)


def check(P, R, tier):
    tu = P.tu(UNIT)
    import grow
    grow.check_prefix_state(P, R, "RF8-prefix")
    import rounddecode
    nr = rounddecode.run_parallel(R, P, "RF2-round", every=(tier == "thorough"), jobs=14)
    R.floor("RF2-round", "decoded (date, target, direction, --next) points of the date rounding", nr, 300000)
    nt = rounddecode.run_time_parallel(R, P, "RF2-round", every=(tier == "thorough"), jobs=14)
    R.floor("RF2-round", "decoded (time, target, direction, --next) points of the time rounding", nt, 100000)
    ndt = rounddecode.run_dt_parallel(R, P, "RF2-round", jobs=14)
    R.floor("RF2-round", "decoded points of the co-class rounding of date-times", ndt, 20000)
    ne = rounddecode.run_epoch(R, P, "RF2-round")
    R.floor("RF2-round", "decoded points of the co-class rounding of epoch values", ne, 400)
    check_fresh(P, R, tu)
    per_fn = check_fourway(P, R, tu)
    check_same(P, R, per_fn)
    check_cocl(P, R, tu)
    check_reasm(P, R, tu)
    check_weekend(P, R, tu)
    check_carry(P, R, tu)


LEVEL = ("Decides the date rounding of dround for year-month-day dates by decoding dround_ddur against the definition (RF2-round): for "
         "every date of the 21 year classes (quick tier: the 1st, 2nd, 15th and 27th-31st of every month), every day-of-month, month "
         "and weekday target, both directions, with and without --next, the result is the nearest date on the requested side with "
         "that field value, finer fields kept, and rounding it again returns it; the value and co-class time roundings likewise on a "
         "grid of times around every boundary, with the day carry.  Plus structural conditions: the eight value-rounding siblings are "
         "one four-way decision with consistent field, target, direction, carry side and wrap constants; compared = stored on the "
         "no-carry paths; divisor gates of the co-class roundings; packing / splitting constants; carry consumed between time and "
         "date rounding; fresh period lengths; dt_round's co-class rounding of date-times to whole days, N months, quarters and "
         "years decoded with the day carry.  NOT decided: rounding of dates held in other calendars (week dates to a week number, "
         "business-day dates), epoch co-class rounding beyond its structure, and dt_round's composition of several targets.")
RULE = "obligation = one test / arm / wrap / goto of a sibling, one no-carry path, one gate / move of a co-class rounding, one constant pair"
ASSUME = ["period lengths (__get_mdays, __get_bdays, __get_isowk) are right (C01)", "dt_dadd adds days exactly (C03)"]
