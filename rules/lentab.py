"""RF2-closed: period tables that the source spells as closed forms are decoded over their whole finite domain (fold.py) and
compared entry by entry with their definition.  Each helper below depends on its (year, month) arguments only through look-ups
that range over a handful of values -- the length of the month (28..31), the weekday of the 1st (1..7), leap or not -- so the
helper *is* a table over those coordinates; the look-ups are replaced by the coordinates while folding."""
from core import AnalysisBroken, NotConst
import fold

MDAYS = [0, 31, 28, 31, 30, 31, 30, 31, 31, 30, 31, 30, 31]


def _wd(first, k):
    """weekday (Mon = 1 .. Sun = 7) of the k-th day of a period whose first day falls on `first`"""
    return (first - 1 + k - 1) % 7 + 1


def _before(m, leap):
    """days before month m (1..13)"""
    return sum(MDAYS[1:m]) + (1 if leap and m >= 3 else 0)


def _decode(R, rule, fn, domain, calls_for, args_for, expect, what, names):
    bad = []
    n = 0
    for pt in domain:
        try:
            fo = fold.Folder(fn, calls=calls_for(pt), inline=True)
            # the look-ups are replaced by coordinates, so one (year, month) stands for many months: nothing the routine may
            # remember between calls carries over from one entry to the next (history is decided where real years are folded)
            fo.statics = {}
            got = fo.run(args_for(pt))
        except fold.Abort:
            got = "abort"
        except NotConst as e:
            raise AnalysisBroken("%s: %s is not a foldable closed form any more (%s)" % (rule, fn.name, e))
        n += 1
        exp = expect(pt)
        if got != exp:
            bad.append((pt, got, exp))
    if not bad:
        R.ob(rule, "%s: all %d entries of the table it stands for (%s) agree with the definition" % (fn.name, n, what), True,
             sample={"rule": rule, "function": fn.name, "entries": n})
    else:
        pt, got, exp = bad[0]
        R.finding(rule, fn, "%s as a table over %s" % (fn.name, names), "%s: %d of %d entries differ from the definition; first: %s = %s gives %s, "
                  "the calendar says %s" % (what, len(bad), n, names, pt, got, exp))
    return n


def check(P, R, tu, which, rule="RF2-closed"):
    """which: subset of {'bdays', 'mcnt', 'mdays', 'm01wd', 'ydays'}"""
    total = 0
    if "bdays" in which:
        fn = tu.func("__get_bdays")
        if fn is None:
            raise AnalysisBroken("__get_bdays vanished")
        R.saw(fn)
        total += _decode(R, rule, fn, [(md, w1) for md in (28, 29, 30, 31) for w1 in range(1, 8)],
                         lambda pt: {"__get_mdays": lambda y, m: pt[0], "__get_m01_wday": lambda y, m: pt[1]},
                         lambda pt: [2001, 1],
                         lambda pt: sum(1 for k in range(1, pt[0] + 1) if _wd(pt[1], k) <= 5),
                         "Monday-Friday days of a month", "(days of the month, weekday of the 1st)")
    if "mcnt" in which:
        fn = tu.func("__get_mcnt")
        if fn is None:
            raise AnalysisBroken("__get_mcnt vanished")
        R.saw(fn)
        total += _decode(R, rule, fn, [(md, w1, w) for md in (28, 29, 30, 31) for w1 in range(1, 8) for w in range(1, 8)],
                         lambda pt: {"__get_mdays": lambda y, m: pt[0], "__get_m01_wday": lambda y, m: pt[1]},
                         lambda pt: [2001, 1, pt[2]],
                         lambda pt: sum(1 for k in range(1, pt[0] + 1) if _wd(pt[1], k) == pt[2]),
                         "occurrences of a weekday in a month", "(days of the month, weekday of the 1st, weekday)")
    if "mdays" in which:
        fn = tu.func("__get_mdays")
        if fn is None:
            raise AnalysisBroken("__get_mdays vanished")
        R.saw(fn)
        total += _decode(R, rule, fn, [(leap, m) for leap in (0, 1) for m in range(0, 14)],
                         lambda pt: {"__md_get_yday": lambda y, m, d: _before(m, pt[0]) + d if 1 <= m <= 13 else 0, "__leapp": lambda y: pt[0]},
                         lambda pt: [2001, pt[1]],
                         lambda pt: (MDAYS[pt[1]] + (1 if pt[0] and pt[1] == 2 else 0)) if 1 <= pt[1] <= 12 else 0,
                         "days of a month", "(leap year, month)")
    if "m01wd" in which:
        fn = tu.func("__get_m01_wday")
        if fn is None:
            raise AnalysisBroken("__get_m01_wday vanished")
        R.saw(fn)
        total += _decode(R, rule, fn, [(j, leap, m) for j in range(1, 8) for leap in (0, 1) for m in range(0, 14)],
                         lambda pt: {"__get_jan01_wday": lambda y: pt[0], "__leapp": lambda y: pt[1],
                                     "__md_get_yday": lambda y, m, d: _before(m, pt[1]) + d if 1 <= m <= 13 else 0},
                         lambda pt: [2001, pt[2]],
                         lambda pt: _wd(pt[0], _before(pt[2], pt[1]) + 1) if 1 <= pt[2] <= 12 else 0,
                         "weekday of the 1st of a month", "(weekday of 1 January, leap year, month)")
    if "ydays" in which:
        fn = tu.func("__get_ydays")
        if fn is None:
            raise AnalysisBroken("__get_ydays vanished")
        R.saw(fn)
        total += _decode(R, rule, fn, [(0,), (1,)], lambda pt: {"__leapp": lambda y: pt[0]}, lambda pt: [2001],
                         lambda pt: 366 if pt[0] else 365, "days of a year", "(leap year)")
    return total
