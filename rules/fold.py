"""Table decoder: folds a small pure helper of the repository over its whole (tiny, finite) argument domain.

Several helpers are closed forms of what is by definition a small table -- the number of business days of a month as a function of
(length of the month, weekday of the 1st): 4 x 7 entries; the number of a weekday's occurrences in a month: 4 x 7 x 7; the weekend
days inside the last r days before a weekday: 13 x 7.  The source writes them as arithmetic, conditionals and switches instead of
array initialisers.  This module decodes such a helper into the table it stands for by constant folding its statements for every
point of the domain (calls to the look-up functions are replaced by the domain coordinates), so that a rule can compare the table
with its definition entry by entry -- the same thing rules do with array initialisers, just for tables spelled as code.

It is deliberately not a C interpreter: no pointers, no memory, no recursion, no I/O; loops are bounded; anything outside the
supported fragment raises NotConst and the rule reports `not recognised` (exit 2) instead of guessing."""
from core import NotConst, kids, strip, switch_cases, CASTS


class Abort(Exception):
    """abort() / failed assert reached"""


class _Break(Exception):
    pass


class _Continue(Exception):
    pass


class _Return(Exception):
    def __init__(self, v):
        self.v = v


def _wrap(types, n, v):
    if types is None or n.get("t") is None:
        return v
    t = types[n["t"]]
    if t.get("int") and t.get("w"):
        w = t["w"]
        v &= (1 << w) - 1
        if t.get("sg") and v >= 1 << (w - 1):
            v -= 1 << w
    return v


class Folder:
    def __init__(self, fn, calls=None, max_steps=20000):
        self.fn = fn
        self.types = fn.tu.types
        self.calls = calls or {}
        self.max_steps = max_steps

    # ------------------------------------------------------------ expressions
    def lv(self, n):
        n0 = n
        n = strip(n)
        while n is not None and n.get("k") in CASTS and n.get("c"):
            n = strip(n["c"][0])
        if n is not None and n.get("k") == "DeclRefExpr" and n.get("dk") in ("var", "parm"):
            return n["d"]
        raise NotConst("lvalue %s" % (n0.get("k") if n0 else None))

    def ev(self, n):
        self.steps += 1
        if self.steps > self.max_steps:
            raise NotConst("step bound")
        if n is None:
            raise NotConst("none")
        k = n.get("k")
        env = self.env
        if k == "DeclRefExpr":
            if n.get("d") in env:
                return env[n["d"]]
            if "v" in n:
                return n["v"]
            raise NotConst("free variable %s" % n.get("n"))
        if k in ("IntegerLiteral", "CharacterLiteral", "UnaryExprOrTypeTraitExpr") and "v" in n:
            return n["v"]
        if k in CASTS or k in ("ParenExpr", "CompoundLiteralExpr", "ConstantExpr"):
            if n.get("ck") == "ToVoid":
                # (void)sizeof(...) of an assert: nothing to evaluate
                return 0
            v = self.ev(n["c"][0])
            if k in CASTS and n.get("ck") in ("IntegralCast", "NoOp", "LValueToRValue", None, "IntegralToBoolean"):
                if n.get("ck") == "IntegralToBoolean":
                    return int(bool(v))
                if n.get("ck") == "IntegralCast" or k == "CStyleCastExpr":
                    return _wrap(self.types, n, v)
            return v
        if k == "CallExpr":
            cal = n.get("callee")
            if cal == "__builtin_expect":
                return self.ev(n["c"][1])
            if cal in ("abort", "__assert_fail"):
                raise Abort(cal)
            if cal in self.calls:
                args = [self.ev(a) for a in n["c"][1:]]
                return self.calls[cal](*args)
            raise NotConst("call of %s" % cal)
        if k == "UnaryOperator":
            op = n.get("op")
            if op in ("++", "--"):
                d = self.lv(n["c"][0])
                old = env[d]
                new = _wrap(self.types, n["c"][0] if n["c"][0].get("t") is not None else n, old + (1 if op == "++" else -1))
                env[d] = new
                return old if n.get("postfix") else new
            if op == "__extension__":
                return self.ev(n["c"][0])
            v = self.ev(n["c"][0])
            if op == "!":
                return int(not v)
            if op == "-":
                return _wrap(self.types, n, -v)
            if op == "~":
                return _wrap(self.types, n, ~v)
            if op == "+":
                return v
            raise NotConst("unary " + str(op))
        if k == "StmtExpr":
            for s in kids(n):
                self.st(s)
            return 0
        if k == "BinaryOperator":
            op = n.get("op")
            if op == "=":
                d = self.lv(n["c"][0])
                env[d] = self.ev(n["c"][1])
                return env[d]
            if op == "&&":
                return int(bool(self.ev(n["c"][0])) and bool(self.ev(n["c"][1])))
            if op == "||":
                return int(bool(self.ev(n["c"][0])) or bool(self.ev(n["c"][1])))
            if op == ",":
                self.ev(n["c"][0])
                return self.ev(n["c"][1])
            a, b = self.ev(n["c"][0]), self.ev(n["c"][1])
            return self.arith(n, op, a, b)
        if k == "CompoundAssignOperator":
            d = self.lv(n["c"][0])
            r = self.arith(n, n["op"][:-1], env[d], self.ev(n["c"][1]))
            env[d] = _wrap(self.types, n["c"][0], r) if n["c"][0].get("t") is not None else r
            return env[d]
        if k == "ConditionalOperator":
            return self.ev(n["c"][1]) if self.ev(n["c"][0]) else self.ev(n["c"][2])
        if k == "BinaryConditionalOperator":
            v = self.ev(n["c"][0])
            return v if v else self.ev(n["c"][-1])
        if k == "OpaqueValueExpr" and n.get("c"):
            return self.ev(n["c"][0])
        raise NotConst(k)

    def arith(self, n, op, a, b):
        if op == "+":
            r = a + b
        elif op == "-":
            r = a - b
        elif op == "*":
            r = a * b
        elif op == "/":
            if b == 0:
                raise NotConst("div0")
            r = abs(a) // abs(b) * (1 if (a >= 0) == (b >= 0) else -1)
        elif op == "%":
            if b == 0:
                raise NotConst("div0")
            r = abs(a) % abs(b) * (1 if a >= 0 else -1)
        elif op == "<<":
            r = a << b
        elif op == ">>":
            r = a >> b
        elif op == "&":
            r = a & b
        elif op == "|":
            r = a | b
        elif op == "^":
            r = a ^ b
        elif op in ("==", "!=", "<", ">", "<=", ">="):
            return int({"==": a == b, "!=": a != b, "<": a < b, ">": a > b, "<=": a <= b, ">=": a >= b}[op])
        else:
            raise NotConst("binary " + str(op))
        return _wrap(self.types, n, r)

    # ------------------------------------------------------------ statements
    def st(self, s):
        if s is None:
            return
        k = s.get("k")
        if k == "CompoundStmt":
            for c in kids(s):
                self.st(c)
        elif k == "DeclStmt":
            for v in kids(s):
                if v.get("k") == "Var":
                    if kids(v):
                        val = self.ev(kids(v)[0])
                        self.env[v["d"]] = _wrap(self.types, v, val) if v.get("t") is not None else val
                    else:
                        self.env.setdefault(v["d"], 0)
        elif k == "IfStmt":
            if self.ev(s["c"][0]):
                self.st(s["c"][1])
            elif len(s["c"]) > 2 and s["c"][2] is not None:
                self.st(s["c"][2])
        elif k == "SwitchStmt":
            v = self.ev(s["c"][0])
            groups = switch_cases(s)
            start = None
            for i, g in enumerate(groups):
                if any(l["lo"] is not None and l["lo"] <= v <= l["hi"] for l in g["labels"]):
                    start = i
                    break
            if start is None:
                for i, g in enumerate(groups):
                    if any(l["en"] == "default" for l in g["labels"]):
                        start = i
                        break
            if start is None:
                return
            try:
                for g in groups[start:]:
                    for c in g["stmts"]:
                        self.st(c)
            except _Break:
                pass
        elif k in ("WhileStmt", "DoStmt", "ForStmt"):
            if k == "ForStmt":
                init, cond, inc, body = s["c"][0], s["c"][1], s["c"][2], s["c"][3]
                if init is not None:
                    self.st(init)
            elif k == "WhileStmt":
                cond, body, inc = s["c"][0], s["c"][1], None
            else:
                body, cond, inc = s["c"][0], s["c"][1], None
            first = k == "DoStmt"
            try:
                while first or cond is None or self.ev(cond):
                    first = False
                    try:
                        self.st(body)
                    except _Continue:
                        pass
                    if inc is not None:
                        self.ev(inc)
            except _Break:
                pass
        elif k == "ReturnStmt":
            raise _Return(self.ev(kids(s)[0]) if kids(s) else None)
        elif k == "BreakStmt":
            raise _Break()
        elif k == "ContinueStmt":
            raise _Continue()
        elif k == "NullStmt":
            pass
        elif k in ("LabelStmt", "CaseStmt", "DefaultStmt"):
            c = kids(s)
            if c:
                self.st(c[-1])
        elif k == "GotoStmt":
            raise NotConst("goto")
        else:
            self.ev(s)

    def run(self, args):
        """args: values of the parameters in order -> returned value"""
        self.env = {p["d"]: v for p, v in zip(self.fn.params, args)}
        self.steps = 0
        try:
            self.st(self.fn.body)
        except _Return as r:
            return r.v
        return None
