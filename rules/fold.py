"""Table decoder: folds a small pure helper of the repository over its whole (tiny, finite) argument domain.

Several helpers are closed forms of what is by definition a small table -- the number of business days of a month as a function of
(length of the month, weekday of the 1st): 4 x 7 entries; the number of a weekday's occurrences in a month: 4 x 7 x 7; the weekend
days inside the last r days before a weekday: 13 x 7.  The source writes them as arithmetic, conditionals and switches instead of
array initialisers.  This module decodes such a helper into the table it stands for by constant folding its statements for every
point of the domain (calls to the look-up functions are replaced by the domain coordinates), so that a rule can compare the table
with its definition entry by entry -- the same thing rules do with array initialisers, just for tables spelled as code.

It is deliberately not a C interpreter: no pointers, no memory, no recursion, no I/O; loops are bounded; anything outside the
supported fragment raises NotConst and the rule reports `not recognised` (exit 2) instead of guessing."""
from core import NotConst, kids, strip, switch_cases, CASTS


def expr_text_safe(n):
    try:
        from core import expr_text
        return expr_text(n)[:80]
    except Exception:
        return "?"


def base_arrow(n):
    """does the member chain go through a pointer (->) at its base?"""
    x = n
    while x is not None and x.get("k") == "MemberExpr":
        if x.get("arrow"):
            return True
        x = strip(x["c"][0]) if x.get("c") else None
    return False


class Abort(Exception):
    """abort() / failed assert reached"""


class _Break(Exception):
    pass


class _Continue(Exception):
    pass


class _Goto(Exception):
    """args[0]: label name"""


class _Return(Exception):
    def __init__(self, v):
        self.v = v


class Aff:
    """c + k * q for one integer parameter q ranging over a ray: q >= 1 (sign +1) or q <= -1 (sign -1).  Lets a closed form that
    splits its argument into a quotient and a remainder be decoded for *all* quotients at once: the remainder part is folded
    concretely, the quotient stays a symbol, and every operation either keeps the value affine in q or is decided uniformly for
    the whole ray -- otherwise NotConst.  32-bit wrap-around is not modelled for affine values (stated as an assumption)."""
    __slots__ = ("c", "k", "sg")

    def __init__(self, c, k, sg):
        self.c, self.k, self.sg = c, k, sg

    def rng(self):
        """(lo, hi) of the value over the ray (or the bounded interval), None for unbounded"""
        if isinstance(self.sg, tuple):
            a, b = self.c + self.k * self.sg[0], self.c + self.k * self.sg[1]
            return (min(a, b), max(a, b))
        at1 = self.c + self.k * self.sg           # q = sg (the end of the ray)
        grows = self.k * self.sg                  # change per step away from the end
        if grows > 0:
            return (at1, None)
        if grows < 0:
            return (None, at1)
        return (at1, at1)

    def __repr__(self):
        return "%d%+d*q" % (self.c, self.k)


class Split(Exception):
    """the parameter's interval has to be split at args[0]: [lo, t-1] and [t, hi] behave differently"""


def _undecided(dom, pred, why):
    """on a bounded interval: find where the predicate flips and ask for a split; on a ray: not decodable"""
    if isinstance(dom, tuple):
        lo, hi = dom
        p0 = pred(lo)
        if hi - lo <= 4096:
            for t in range(lo + 1, hi + 1):
                if pred(t) != p0:
                    raise Split(t)
        else:
            # predicates over one affine form flip at most twice (an equality is true at one point only): look for a flip by
            # bisection on the monotone part, after probing a coarse grid for the isolated point of an equality
            step = max(1, (hi - lo) // 4096)
            prev = lo
            t = lo + step
            while prev < hi:
                t = min(t, hi)
                if pred(t) != p0:
                    a, b = prev, t          # pred(a) == p0, pred(b) != p0
                    while b - a > 1:
                        mid = (a + b) // 2
                        if pred(mid) != p0:
                            b = mid
                        else:
                            a = mid
                    raise Split(b)
                prev, t = t, t + step
    raise NotConst(why)


def run_split(fn, args_for, lo, hi, calls=None):
    """fold fn with one parameter t ranging over [lo, hi]; args_for(t_value) builds the argument list (t_value is an Aff or an int).
    Returns [((lo, hi), result)] for the pieces on which the function is one affine form (or a constant)."""
    out = []
    work = [(lo, hi)]
    while work:
        a, b = work.pop()
        if a > b:
            continue
        try:
            tv = Aff(0, 1, (a, b)) if a < b else a
            # helpers that have no stand-in in `calls` are folded along (a routine may have been split into helpers of its own)
            res = Folder(fn, calls=calls, inline=True, max_steps=400000).run(args_for(tv))
            out.append(((a, b), res))
        except Split as sp:
            t = sp.args[0]
            work.append((a, t - 1))
            work.append((t, b))
    return sorted(out, key=lambda x: x[0])


def _aff(v, sg):
    return v if isinstance(v, Aff) else Aff(v, 0, sg)


def _norm(v):
    return v.c if isinstance(v, Aff) and v.k == 0 else v


def _wrap(types, n, v):
    if isinstance(v, Aff):
        return v
    if types is None or n.get("t") is None:
        return v
    t = types[n["t"]]
    if t.get("int") and t.get("w"):
        w = t["w"]
        v &= (1 << w) - 1
        if t.get("sg") and v >= 1 << (w - 1):
            v -= 1 << w
    return v


RESOLVE = {"fn": None}
GLOBALS = {"fn": None}     # name -> global variable record of another unit


class Ptr:
    """address of a variable of some frame (`&res` handed to a helper that fills the record in, `&sp` handed to a reader that
    advances the caller's cursor)"""
    def __init__(self, env, d, t, prefix=""):
        self.env, self.d, self.t, self.prefix = env, d, t, prefix

    def __eq__(self, other):
        return isinstance(other, Ptr) and self.env is other.env and self.d == other.d and self.prefix == other.prefix

    def __hash__(self):
        return hash((id(self.env), self.d, self.prefix))


class ListFrame:
    """an array of records looked at as a frame: the element index is the variable (for `p->member` with p pointing into the array)"""
    def __init__(self, lst):
        self.lst = lst

    def _fix(self, k):
        if not isinstance(self.lst[k], dict):
            self.lst[k] = {}
        return self.lst[k]

    def get(self, k, default=None):
        return self._fix(k) if 0 <= k < len(self.lst) else default

    def __getitem__(self, k):
        return self._fix(k)

    def __setitem__(self, k, v):
        self.lst[k] = v

    def setdefault(self, k, v):
        return self._fix(k)

    def __contains__(self, k):
        return isinstance(k, int) and 0 <= k < len(self.lst)


class Heap(dict):
    """cells handed out by calloc / malloc: id -> record (flattened member paths)"""
    def new(self):
        k = "cell%d" % (len(self) + 1)
        self[k] = {}
        return Ptr(self, k, None)


class CPtr:
    """pointer into a byte / integer array: (the array as a mutable list, offset).  Arrays are text buffers, string literals and
    constant tables; reading or writing outside the array aborts the fold (that is a finding of its own kind)."""
    __slots__ = ("buf", "off")

    def __init__(self, buf, off=0):
        self.buf, self.off = buf, off

    def get(self, i=0):
        j = self.off + i
        if not (0 <= j < len(self.buf)):
            raise Abort("read at offset %d of an array of %d" % (j, len(self.buf)))
        return self.buf[j]

    def put(self, v, i=0):
        j = self.off + i
        if not (0 <= j < len(self.buf)):
            raise Abort("write at offset %d of an array of %d" % (j, len(self.buf)))
        self.buf[j] = v

    def __repr__(self):
        return "<ptr +%d/%d>" % (self.off, len(self.buf))


def cstr(text):
    """a NUL terminated byte array for a Python string"""
    return CPtr(list(text.encode("latin-1", "replace")) + [0], 0)


def cstr_value(p, maxlen=4096):
    out = []
    i = 0
    while i < maxlen:
        c = p.get(i)
        if c == 0:
            break
        out.append(c)
        i += 1
    return bytes(out).decode("latin-1")


SHARED_STATICS = {}


def _zero_array(cs):
    """zeros in the shape a canonical array type spells (`unsigned char[16][8]`)"""
    import re
    dims = [int(x) for x in re.findall(r"\[(\d+)\]", cs)]
    if not dims:
        return None
    leaf = (lambda: {}) if re.match(r"\s*(const\s+)?(struct|union)\b", cs) else (lambda: 0)

    def mk(ds):
        return [mk(ds[1:]) for _ in range(ds[0])] if len(ds) > 1 else [leaf() for _ in range(ds[0])]
    return mk(dims)


class Folder:
    def __init__(self, fn, calls=None, max_steps=20000, depth=0, inline=False):
        self.fn = fn
        self.types = fn.tu.types
        self.calls = calls or {}
        self.max_steps = max_steps
        self._lay = {}
        self._sgn = {}
        self._cur_sgn = None
        self.depth = depth
        self.inline = inline      # fold calls of functions defined in the unit (pure helpers) instead of refusing them
        self._tabs = {}
        # local variables with static storage: (function, decl id) -> value, kept from one call to the next.  A decoder that hands
        # the same dict to successive folds sees what the routine remembers between calls.
        # what static locals hold is kept between folds of one process (as in the running program): a result that depends
        # on what was computed before shows up as a wrong value.  Set `statics = {}` for a run without history.
        self.statics = SHARED_STATICS
        self._static_ds = []

    def truth(self, v):
        if isinstance(v, (Ptr, CPtr)):
            return True
        if not isinstance(v, Aff):
            return bool(v)
        lo, hi = v.rng()
        if (lo is not None and lo > 0) or (hi is not None and hi < 0):
            return True
        if lo == 0 and hi == 0:
            return False
        _undecided(v.sg, lambda t: (v.c + v.k * t) != 0, "truth of %r depends on the quotient" % v)

    # ------------------------------------------------------------ expressions
    def lv(self, n):
        """lvalue key: decl id, or (decl id, member path) for a member of a record held in a variable"""
        n0 = n
        n = strip(n)
        while n is not None and n.get("k") in CASTS and n.get("c"):
            n = strip(n["c"][0])
        if n is not None and n.get("k") == "DeclRefExpr" and n.get("dk") in ("var", "parm"):
            return n["d"]
        if n is not None and n.get("k") == "DeclRefExpr" and n.get("dk") == "gvar" and n.get("d") in self._static_ds:
            return n["d"]
        if n is not None and n.get("k") == "UnaryOperator" and n.get("op") == "*":
            pv = self.ev(n["c"][0])
            if isinstance(pv, (CPtr, Ptr)):
                self._deref_t = n.get("t")
                return ("deref", pv, 0)
            raise NotConst("dereference of a non-pointer")
        if n is not None and n.get("k") == "ArraySubscriptExpr":
            base = self.ev(n["c"][0])
            idx = self.ev(n["c"][1])
            if isinstance(base, list):
                base = CPtr(base, 0)
            if isinstance(base, CPtr) and isinstance(idx, int):
                self._deref_t = n.get("t")
                return ("deref", base, idx)
            raise NotConst("subscript lvalue")
        if n is not None and n.get("k") == "MemberExpr":
            names = []
            x = n
            arrow_base = None
            arrow_rec = None
            while x is not None and x.get("k") == "MemberExpr":
                if x.get("n"):
                    names.append(x["n"])
                was_arrow = x.get("arrow")
                cur_rec = x.get("rec")
                x = strip(x["c"][0]) if x.get("c") else None
                while x is not None and x.get("k") in CASTS and x.get("c"):
                    x = strip(x["c"][0])
                if was_arrow:
                    arrow_base = x
                    arrow_rec = cur_rec
                    break
            if arrow_base is not None:
                # p->a.b : the pointer is whatever the base expression evaluates to (a variable, another member, a call)
                pv = self.ev(arrow_base)
                if isinstance(pv, list):
                    pv = CPtr(pv, 0)
                if isinstance(pv, CPtr) and 0 <= pv.off < len(pv.buf) and (isinstance(pv.buf[pv.off], dict) or pv.buf[pv.off] == 0):
                    # a pointer into an array of records
                    pv = Ptr(ListFrame(pv.buf), pv.off, None)
                if isinstance(pv, Ptr):
                    path = ".".join(reversed(names))
                    if arrow_rec is not None:
                        return (pv, path, ("rec", arrow_rec, pv.prefix))
                    return (pv, (pv.prefix + "." + path) if pv.prefix else path, pv.t if not pv.prefix else None)
                raise NotConst("member through a non-pointer")
            if x is not None and x.get("k") == "DeclRefExpr" and x.get("dk") in ("var", "parm"):
                pv = self.env.get(x["d"])
                if isinstance(pv, Ptr):
                    path = ".".join(reversed(names))
                    return (pv, (pv.prefix + "." + path) if pv.prefix else path, pv.t if not pv.prefix else None)
                return (x["d"], ".".join(reversed(names)), x.get("t"))
        raise NotConst("lvalue %s %s" % (n0.get("k") if n0 else None, (n0.get("n"), n0.get("dk")) if n0 else ""))

    def load(self, key):
        if not isinstance(key, tuple):
            return self.env[key]
        if key[0] == "deref":
            pv, i = key[1], key[2]
            if isinstance(pv, CPtr):
                return pv.get(i)
            return pv.env[pv.d]
        d, path, t = key
        rec = d.env.get(d.d) if isinstance(d, Ptr) else self.env.get(d)
        if not isinstance(rec, dict):
            raise NotConst("member %s of a value that is not a record (in %s)" % (path, self.fn.name))
        if isinstance(t, tuple) and t[2]:
            # a pointer into a record (the atom inside a node): work on that part
            pre = t[2] + "."
            sub = {k2[len(pre):]: v2 for k2, v2 in rec.items() if k2.startswith(pre)}
            frame = {"__sub__": sub}
            return self.load((Ptr(frame, "__sub__", None), path, ("rec", t[1], "")))
        if path in rec:
            if rec[path] == 0 and any(k2.startswith(path + ".") for k2 in rec):
                # a sub-record zero-initialised as a whole (`= {0}`) and then written member by member: its leaves
                return {k2[len(path) + 1:]: v2 for k2, v2 in rec.items() if k2.startswith(path + ".")}
            return rec[path]
        if t is None:
            # a heap cell (no layout known): a sub-record is what is stored under the path, an unwritten member reads 0
            sub = {k2[len(path) + 1:]: v2 for k2, v2 in rec.items() if k2.startswith(path + ".")}
            return sub if sub else 0
        # a union view (the packed word) or a member that was never written: assemble it from the leaves stored so far
        lay = self.layout(t)
        if lay is not None and path not in lay and any(k2.startswith(path + ".") for k2 in lay):
            # a whole sub-record (handed on to a helper): its leaves; a leaf that was stored through the enclosing record's own
            # member of exactly the same bits (the flags an embedded type shares with its container) comes along under its name
            sub = {k2[len(path) + 1:]: v2 for k2, v2 in rec.items() if k2.startswith(path + ".")}
            ext = {}
            for k2, v2 in rec.items():
                if not k2.startswith(path + ".") and k2 in lay and v2 != 0:
                    ext.setdefault(lay[k2], v2)
            if ext:
                for k3, e3 in lay.items():
                    if k3.startswith(path + ".") and k3[len(path) + 1:] not in sub and e3 in ext:
                        sub[k3[len(path) + 1:]] = ext[e3]
            return sub
        if lay is None or path not in lay:
            raise NotConst("member %s" % path)
        off, w = lay[path]
        tot, hit = 0, False
        for p2, v in rec.items():
            e = self._ext(lay, p2)
            if e is None or p2 == path:
                continue
            o2, w2 = e
            if o2 + w2 <= off or off + w <= o2:
                continue
            hit = True
            if off <= o2 and o2 + w2 <= off + w:
                part = v
                if isinstance(v, int):
                    part = v & ((1 << w2) - 1)
                tot = self.arith({}, "+", tot, self.arith({}, "*", part, 1 << (o2 - off)))
            elif isinstance(v, int):
                # a stored member that sticks out of the one asked for: the bits they share
                a, b = max(off, o2), min(off + w, o2 + w2)
                bits = ((v & ((1 << w2) - 1)) >> (a - o2)) & ((1 << (b - a)) - 1)
                tot = self.arith({}, "+", tot, bits << (a - off))
            else:
                raise NotConst("member %s overlaps a symbolic value stored through another view" % path)
        if not hit:
            return 0
        if isinstance(tot, int) and self._cur_sgn is not None and path in self._cur_sgn:
            tot &= (1 << w) - 1
            if self._cur_sgn[path] and tot >= 1 << (w - 1):
                tot -= 1 << w
        return tot

    def store(self, key, v):
        if not isinstance(key, tuple):
            self.env[key] = dict(v) if isinstance(v, dict) else v
            return
        if key[0] == "deref":
            pv, i = key[1], key[2]
            if isinstance(pv, CPtr):
                if isinstance(v, dict) and 0 <= pv.off + i < len(pv.buf) and (isinstance(pv.buf[pv.off + i], dict) or pv.buf[pv.off + i] == 0):
                    pv.buf[pv.off + i] = dict(v)
                    return
                if isinstance(v, (CPtr, Ptr)) and 0 <= pv.off + i < len(pv.buf):
                    pv.buf[pv.off + i] = v
                    return
                if not isinstance(v, int):
                    raise NotConst("non-integer stored into an array")
                ty = self.types[self._deref_t] if getattr(self, "_deref_t", None) is not None else None
                if ty is not None and ty.get("int") and ty.get("w"):
                    # the element keeps what fits its type; bytes are kept unsigned (text buffers compare against literals that way)
                    w = ty["w"]
                    v &= (1 << w) - 1
                    if w > 8 and ty.get("sg") and v >= 1 << (w - 1):
                        v -= 1 << w
                    pv.put(v, i)
                else:
                    pv.put(v & 0xff if -256 < v < 256 and len(pv.buf) and isinstance(pv.buf[0], int) else v, i)
            else:
                old = pv.env.get(pv.d) if hasattr(pv.env, "get") else None
                if isinstance(v, dict) and isinstance(old, dict):
                    # assigning a record leaves what lies behind it (a flexible array member's storage) alone
                    v = dict(v)
                    for k2, v2 in old.items():
                        if k2 not in v and isinstance(v2, (CPtr, list)):
                            v[k2] = v2
                pv.env[pv.d] = v
            return
        d, path, t = key
        rec = d.env.setdefault(d.d, {}) if isinstance(d, Ptr) else self.env.setdefault(d, {})
        if not isinstance(rec, dict):
            raise NotConst("member of a value that is not a record")
        if isinstance(t, tuple) and t[2]:
            pre = t[2] + "."
            sub = {k2[len(pre):]: v2 for k2, v2 in rec.items() if k2.startswith(pre)}
            frame = {"__sub__": sub}
            self.store((Ptr(frame, "__sub__", None), path, ("rec", t[1], "")), v)
            for k2 in [k3 for k3 in rec if k3.startswith(pre)]:
                del rec[k2]
            for k2, v2 in frame["__sub__"].items():
                rec[pre + k2] = v2
            return
        lay = self.layout(t)
        if lay is not None and path in lay:
            # writing a member replaces the bits it covers, whatever view they were stored through
            off, w = lay[path]
            self._carve(rec, lay, off, off + w, keep=path)
        if isinstance(v, dict):
            # a whole sub-record: its leaves; whatever overlaps the sub-record in another view of the union goes
            for k2 in [k3 for k3 in rec if k3.startswith(path + ".")]:
                del rec[k2]
            if lay is not None:
                # the bits of its named leaves; unnamed padding between them keeps what another view stored there (the project
                # keeps flags of the enclosing type in the padding of the embedded one, and copies of records carry them along)
                for o, w in sorted({lay[k3] for k3 in lay if k3.startswith(path + ".")}):
                    if w:
                        self._carve(rec, lay, o, o + w)
            for k2, v2 in v.items():
                rec[path + "." + k2] = v2
            return
        if isinstance(v, int) and lay is not None and path in lay and self._cur_sgn is not None and path in self._cur_sgn and lay[path][1]:
            # a bit-field keeps what fits
            w = lay[path][1]
            v &= (1 << w) - 1
            if self._cur_sgn[path] and v >= 1 << (w - 1):
                v -= 1 << w
        rec[path] = v

    @staticmethod
    def _ext(lay, key):
        """bit extent (offset, width) of a stored key: a layout path, or an anonymous slice `#offset:width` left over from a
        partially overwritten member"""
        if key.startswith("#"):
            o, w = key[1:].split(":")
            return int(o), int(w)
        return lay.get(key) if lay is not None else None

    def _carve(self, rec, lay, lo, hi, keep=None):
        """make room for a write of the bits [lo, hi): stored members inside go; members that stick out keep their other bits as
        anonymous slices (a concrete value is split, a symbolic one is dropped)"""
        for p2 in list(rec):
            if p2 == keep:
                continue
            e = self._ext(lay, p2)
            if e is None:
                continue
            o2, w2 = e
            if o2 + w2 <= lo or hi <= o2:
                continue
            v2 = rec.pop(p2)
            if lo <= o2 and o2 + w2 <= hi:
                continue
            if isinstance(v2, int):
                u = v2 & ((1 << w2) - 1)
                if o2 < lo:
                    rec["#%d:%d" % (o2, lo - o2)] = u & ((1 << (lo - o2)) - 1)
                if o2 + w2 > hi:
                    rec["#%d:%d" % (hi, o2 + w2 - hi)] = u >> (hi - o2)

    def layout(self, t):
        if t is None:
            self._cur_sgn = None
            return None
        if isinstance(t, tuple):
            rid = t[1]
        else:
            ty = self.types[t]
            rid = ty.get("rec")
        if rid is None:
            return None
        if rid not in self._lay:
            rec = self.fn.tu.recs_by_id.get(rid)
            self._lay[rid] = {p_: (o, w) for p_, o, w, sg in self.fn.tu.flatten_record(rec)} if rec else None
            self._sgn[rid] = {p_: bool(sg) for p_, o, w, sg in self.fn.tu.flatten_record(rec)} if rec else None
        self._cur_sgn = self._sgn.get(rid)
        return self._lay[rid]

    def ev(self, n):
        self.steps += 1
        if self.steps > self.max_steps:
            raise NotConst("step bound")
        if n is None:
            raise NotConst("none")
        k = n.get("k")
        env = self.env
        if k == "DeclRefExpr":
            if n.get("d") in env:
                v0 = env[n["d"]]
                return v0
            g = self.global_table(n)
            if g is not None:
                return g
            if n.get("dk") in ("var", "gvar", None) and n.get("n"):
                from core import init_value
                gv = self.fn.tu.global_var(n.get("n"), func=self.fn.name) or self.fn.tu.global_var(n.get("n"))
                if (gv is None or (gv.get("init") is None and "val" not in gv)) and GLOBALS.get("fn") is not None:
                    gv = GLOBALS["fn"](n.get("n")) or gv
                if gv is not None:
                    v0 = gv.get("val") if "val" in gv else init_value(gv.get("init"))
                    if isinstance(v0, int):
                        return v0
            if "v" in n:
                return n["v"]
            raise NotConst("free variable %s" % n.get("n"))
        if k in ("IntegerLiteral", "CharacterLiteral", "UnaryExprOrTypeTraitExpr", "OffsetOfExpr") and "v" in n:
            return n["v"]
        if k == "StringLiteral" and isinstance(n.get("s"), str):
            return CPtr(list(n["s"].encode("latin-1", "replace")) + [0], 0)
        if k in CASTS or k in ("ParenExpr", "CompoundLiteralExpr", "ConstantExpr"):
            if n.get("ck") == "ToVoid":
                # (void)sizeof(...) of an assert: nothing to evaluate
                return 0
            if n.get("ck") == "ArrayToPointerDecay":
                inner = strip(n["c"][0])
                if inner is not None and inner.get("k") == "MemberExpr":
                    try:
                        key = self.lv(inner)
                    except NotConst:
                        key = None
                    if isinstance(key, tuple) and isinstance(key[0], Ptr):
                        have = key[0].env.get(key[0].d, {})
                        if isinstance(have.get(key[1]), CPtr):
                            return have.get(key[1])
                        if not isinstance(have.get(key[1]), list):
                            return Ptr(key[0].env, key[0].d, None, prefix=key[1])
            v = self.ev(n["c"][0])
            if isinstance(v, list) and n.get("ck") == "ArrayToPointerDecay":
                return CPtr(v, 0)
            if isinstance(v, (CPtr, Ptr)):
                if n.get("ck") == "PointerToBoolean":
                    return 1
                return v
            if k in CASTS and n.get("ck") in ("IntegralCast", "NoOp", "LValueToRValue", None, "IntegralToBoolean"):
                if n.get("ck") == "IntegralToBoolean":
                    return int(bool(v))
                if n.get("ck") == "IntegralCast" or k == "CStyleCastExpr":
                    return _wrap(self.types, n, v)
            return v
        if k == "MemberExpr":
            try:
                key = self.lv(n)
            except NotConst:
                return self.member_of_value(n)
            return self.load(key)
        if k == "InitListExpr":
            return self.initlist(n)
        if k == "ImplicitValueInitExpr":
            return 0
        if k == "ArraySubscriptExpr":
            b0 = strip(n["c"][0])
            while b0 is not None and b0.get("k") in CASTS and b0.get("c"):
                b0 = strip(b0["c"][0])
            if b0 is not None and b0.get("k") == "DeclRefExpr":
                pv0 = self.env.get(b0.get("d"))
                if isinstance(pv0, CPtr) and pv0.off and pv0.buf and isinstance(pv0.buf[0], int):
                    # a cursor into a buffer: indices count from the cursor, also backwards
                    return self.load(self.lv(n))
            try:
                return self.table_read(n)
            except NotConst:
                return self.load(self.lv(n))
        if k == "CallExpr":
            cal = n.get("callee")
            if cal == "__builtin_expect":
                return self.ev(n["c"][1])
            if cal in ("abort", "__assert_fail"):
                raise Abort(cal)
            if cal in self.calls:
                args = [self.ev(a) for a in n["c"][1:]]
                return self.calls[cal](*args)
            if self.inline and cal:
                f = self.fn.tu.func(cal)
                if (f is None or getattr(f, "body", None) is None) and RESOLVE.get("fn") is not None:
                    f = RESOLVE["fn"](cal)      # a helper defined in another unit of the build (library code called by a tool)
                if f is not None and getattr(f, "body", None) is not None and self.depth < 12:
                    args = [self.ev(a) for a in n["c"][1:]]
                    sub = Folder(f, calls=self.calls, max_steps=self.max_steps, depth=self.depth + 1, inline=True)
                    sub._tabs = self._tabs
                    sub.statics = self.statics
                    r = sub.run(args, steps=self.steps)
                    self.steps = sub.steps
                    return r
            raise NotConst("call of %s" % cal)
        if k == "UnaryOperator":
            op = n.get("op")
            if op in ("++", "--"):
                d = self.lv(n["c"][0])
                old = self.load(d)
                if isinstance(old, CPtr):
                    new = CPtr(old.buf, old.off + (1 if op == "++" else -1))
                    self.store(d, new)
                    return old if n.get("postfix") else new
                if isinstance(old, Aff):
                    new = Aff(old.c + (1 if op == "++" else -1), old.k, old.sg)
                    self.store(d, new)
                    return old if n.get("postfix") else new
                new = _wrap(self.types, n["c"][0] if n["c"][0].get("t") is not None else n, old + (1 if op == "++" else -1))
                self.store(d, new)
                return old if n.get("postfix") else new
            if op == "__extension__":
                return self.ev(n["c"][0])
            if op == "&":
                x = strip(n["c"][0])
                if x is not None and x.get("k") == "DeclRefExpr" and x.get("dk") in ("var", "parm"):
                    if x["d"] not in self.env:
                        ty = self.types[x["t"]] if x.get("t") is not None else {}
                        self.env[x["d"]] = {} if ty.get("rec") is not None else 0
                    return Ptr(self.env, x["d"], x.get("t"))
                if x is not None and x.get("k") == "ArraySubscriptExpr":
                    key = self.lv(x)
                    return CPtr(key[1].buf, key[1].off + key[2])
                if x is not None and x.get("k") == "DeclRefExpr" and x.get("dk") == "gvar" and x.get("d") in self._static_ds:
                    return Ptr(self.env, x["d"], x.get("t"))
                if x is not None and x.get("k") == "DeclRefExpr" and x.get("dk") == "gvar":
                    # the address of a constant record with static storage (`static const struct strpd_s d0 = {0}` to compare with)
                    ty = self.types[x["t"]] if x.get("t") is not None else {}
                    if ty.get("rec") is not None and "const" in ty.get("s", ""):
                        try:
                            v = self.ev(x)
                        except NotConst:
                            v = None
                        if v == 0 or isinstance(v, dict):
                            return Ptr({"g": dict(v) if isinstance(v, dict) else {}}, "g", x.get("t"))
                if x is not None and x.get("k") == "MemberExpr":
                    # the address of a sub-record (`&d->sd`, `&res.d` handed to a helper): a pointer into the enclosing record
                    key = self.lv(x)
                    if isinstance(key, tuple) and len(key) == 3 and key[0] != "deref":
                        if isinstance(key[0], Ptr):
                            pre = key[0].prefix if isinstance(key[2], tuple) else ""
                            return Ptr(key[0].env, key[0].d, None, prefix=(pre + "." + key[1]) if pre else key[1])
                        self.env.setdefault(key[0], {})
                        return Ptr(self.env, key[0], None, prefix=key[1])
                raise NotConst("address of %s" % expr_text_safe(x))
            if op == "*":
                return self.load(self.lv(n))
            v = self.ev(n["c"][0])
            if op == "!":
                return int(not self.truth(v))
            if op == "-":
                if isinstance(v, Aff):
                    return Aff(-v.c, -v.k, v.sg)
                return _wrap(self.types, n, -v)
            if op == "~":
                return _wrap(self.types, n, ~v)
            if op == "+":
                return v
            raise NotConst("unary " + str(op))
        if k == "StmtExpr":
            for s in kids(n):
                self.st(s)
            return 0
        if k == "BinaryOperator":
            op = n.get("op")
            if op == "=":
                d = self.lv(n["c"][0])
                v = self.ev(n["c"][1])
                self.store(d, v)
                return v
            if op == "&&":
                return int(self.truth(self.ev(n["c"][0])) and self.truth(self.ev(n["c"][1])))
            if op == "||":
                return int(self.truth(self.ev(n["c"][0])) or self.truth(self.ev(n["c"][1])))
            if op == ",":
                self.ev(n["c"][0])
                return self.ev(n["c"][1])
            a, b = self.ev(n["c"][0]), self.ev(n["c"][1])
            return self.arith(n, op, a, b)
        if k == "CompoundAssignOperator":
            d = self.lv(n["c"][0])
            r = self.arith(n, n["op"][:-1], self.load(d), self.ev(n["c"][1]))
            r = _wrap(self.types, n["c"][0], r) if n["c"][0].get("t") is not None and not isinstance(d, tuple) and isinstance(r, int) else r
            self.store(d, r)
            return r
        if k == "ConditionalOperator":
            return self.ev(n["c"][1]) if self.truth(self.ev(n["c"][0])) else self.ev(n["c"][2])
        if k == "BinaryConditionalOperator":
            v = self.ev(n["c"][0])
            return v if self.truth(v) else self.ev(n["c"][-1])
        if k == "OpaqueValueExpr" and n.get("c"):
            return self.ev(n["c"][0])
        raise NotConst(k)

    def arith_aff(self, op, a, b):
        sg = a.sg if isinstance(a, Aff) else b.sg
        a, b = _aff(a, sg), _aff(b, sg)
        if op == "+":
            return _norm(Aff(a.c + b.c, a.k + b.k, sg))
        if op == "-":
            return _norm(Aff(a.c - b.c, a.k - b.k, sg))
        if op == "*":
            if a.k == 0:
                return _norm(Aff(a.c * b.c, a.c * b.k, sg))
            if b.k == 0:
                return _norm(Aff(a.c * b.c, a.k * b.c, sg))
            raise NotConst("product of two quotient-dependent values")
        if op in ("/", "%"):
            if b.k != 0 or b.c <= 0:
                raise NotConst("division by a quotient-dependent or non-positive value")
            m = b.c
            if a.k % m:
                if not isinstance(sg, tuple):
                    raise NotConst("the quotient's coefficient %d is not a multiple of the divisor %d" % (a.k, m))
                # on a bounded interval: pieces on which the (truncating) quotient is constant
                def tq(t):
                    v = a.c + a.k * t
                    return abs(v) // m * (1 if v >= 0 else -1)
                lo_, hi_ = sg
                q0 = tq(lo_)
                if tq(hi_) != q0:
                    a_, b_ = lo_, hi_           # the truncating quotient is monotone in t: bisect for the first change
                    while b_ - a_ > 1:
                        mid = (a_ + b_) // 2
                        if tq(mid) != q0:
                            b_ = mid
                        else:
                            a_ = mid
                    raise Split(b_)
                return q0 if op == "/" else _norm(Aff(a.c - m * q0, a.k, sg))
            lo, hi = a.rng()
            if lo is not None and lo >= 0:
                qc, rc = a.c // m, a.c % m                      # floor
            elif hi is not None and hi <= 0:
                qc = -((-a.c) // m)                             # towards zero for a non-positive total
                rc = a.c - m * qc
            else:
                _undecided(sg, lambda t: (a.c + a.k * t) >= 0, "sign of the dividend %r depends on the quotient" % a)
            return _norm(Aff(qc, a.k // m, sg)) if op == "/" else rc
        if op in ("==", "!=", "<", ">", "<=", ">="):
            d = Aff(a.c - b.c, a.k - b.k, sg)
            lo, hi = d.rng()
            def known(pred_lo, pred_hi):
                return None
            if op in ("<", ">="):
                if hi is not None and hi < 0:
                    r = True
                elif lo is not None and lo >= 0:
                    r = False
                else:
                    _undecided(sg, lambda t: (d.c + d.k * t) < 0, "comparison of %r with %r depends on the quotient" % (a, b))
                return int(r if op == "<" else not r)
            if op in (">", "<="):
                if lo is not None and lo > 0:
                    r = True
                elif hi is not None and hi <= 0:
                    r = False
                else:
                    _undecided(sg, lambda t: (d.c + d.k * t) > 0, "comparison of %r with %r depends on the quotient" % (a, b))
                return int(r if op == ">" else not r)
            # == / !=
            if (lo is not None and lo > 0) or (hi is not None and hi < 0):
                return int(op == "!=")
            if lo == 0 and hi == 0:
                return int(op == "==")
            _undecided(sg, lambda t: (d.c + d.k * t) == 0, "equality of %r and %r depends on the quotient" % (a, b))
        raise NotConst("operator %s on a quotient-dependent value" % op)

    def arith(self, n, op, a, b):
        if isinstance(a, list):
            a = CPtr(a, 0)
        if isinstance(b, list):
            b = CPtr(b, 0)
        if isinstance(a, CPtr) or isinstance(b, CPtr):
            if isinstance(a, CPtr) and isinstance(b, CPtr):
                if a.buf is not b.buf:
                    if op == "==":
                        return 0
                    if op == "!=":
                        return 1
                    raise NotConst("pointers into different arrays")
                if op == "-":
                    return a.off - b.off
                if op in ("==", "!=", "<", ">", "<=", ">="):
                    x, y = a.off, b.off
                    return int({"==": x == y, "!=": x != y, "<": x < y, ">": x > y, "<=": x <= y, ">=": x >= y}[op])
                raise NotConst("pointer %s pointer" % op)
            p_, i_ = (a, b) if isinstance(a, CPtr) else (b, a)
            if isinstance(i_, int):
                if op == "+":
                    return CPtr(p_.buf, p_.off + i_)
                if op == "-" and p_ is a:
                    return CPtr(p_.buf, p_.off - i_)
                if op in ("==", "!=") and i_ in (0, -1, (1 << 64) - 1):
                    # NULL, MAP_FAILED: an object's address is neither
                    return int(op == "!=")
            raise NotConst("pointer arithmetic %s" % op)
        if isinstance(a, Ptr) or isinstance(b, Ptr):
            other = b if isinstance(a, Ptr) else a
            if op in ("==", "!=") and isinstance(other, int) and other == 0:
                return int(op == "!=")
            if op in ("==", "!=") and isinstance(a, Ptr) and isinstance(b, Ptr):
                return int((a == b) == (op == "=="))
            raise NotConst("pointer arithmetic %s on a record address (%s)" % (op, expr_text_safe(n) if isinstance(n, dict) and n.get("k") else ""))
        if isinstance(a, Aff) or isinstance(b, Aff):
            return self.arith_aff(op, a, b)
        if op == "+":
            r = a + b
        elif op == "-":
            r = a - b
        elif op == "*":
            r = a * b
        elif op == "/":
            if b == 0:
                raise NotConst("div0")
            r = abs(a) // abs(b) * (1 if (a >= 0) == (b >= 0) else -1)
        elif op == "%":
            if b == 0:
                raise NotConst("div0")
            r = abs(a) % abs(b) * (1 if a >= 0 else -1)
        elif op == "<<":
            r = a << b
        elif op == ">>":
            r = a >> b
        elif op == "&":
            r = a & b
        elif op == "|":
            r = a | b
        elif op == "^":
            r = a ^ b
        elif op in ("==", "!=", "<", ">", "<=", ">="):
            return int({"==": a == b, "!=": a != b, "<": a < b, ">": a > b, "<=": a <= b, ">=": a >= b}[op])
        else:
            raise NotConst("binary " + str(op))
        return _wrap(self.types, n, r)

    # ------------------------------------------------------------ statements
    def st(self, s):
        if s is None:
            return
        k = s.get("k")
        if k == "CompoundStmt":
            for c in kids(s):
                self.st(c)
        elif k == "DeclStmt":
            for v in kids(s):
                if v.get("k") == "Var":
                    ty0 = self.types[v["t"]] if v.get("t") is not None else {}
                    if v.get("static") and not (ty0.get("arr") and kids(v)) \
                            and "const" not in ty0.get("s", "").split("*")[-1]:
                        sk = (self.fn.name, v["d"])
                        if sk not in self.statics:
                            ty = ty0
                            if ty.get("arr"):
                                # a writable static array without initialiser: zeros in its declared shape, kept between calls
                                self.statics[sk] = _zero_array(ty.get("c", ""))
                            else:
                                self.statics[sk] = self.ev(kids(v)[0]) if kids(v) else ({} if ty.get("rec") is not None else 0)
                        self.env[v["d"]] = self.statics[sk]
                        self._static_ds.append(v["d"])
                        continue
                    if kids(v):
                        val = self.ev(kids(v)[0])
                        if isinstance(val, dict):
                            self.env[v["d"]] = dict(val)
                        elif isinstance(val, list) or (isinstance(val, CPtr) and val.off == 0 and val.buf and isinstance(val.buf[0], list)):
                            if isinstance(val, CPtr):
                                val = val.buf
                            ty = self.types[v["t"]] if v.get("t") is not None else {}
                            cs = ty.get("c", "")
                            if val and isinstance(val[0], list) and ty.get("ptr") and cs.count("*") == 1 and "(" not in cs and "[" not in cs:
                                # a table of rows looked at through a pointer to its cells: rows are contiguous (a read-only view)
                                while val and isinstance(val[0], list):
                                    val = [c for row in val for c in row]
                            self.env[v["d"]] = val
                        else:
                            self.env[v["d"]] = _wrap(self.types, v, val) if v.get("t") is not None else val
                    else:
                        ty = self.types[v["t"]] if v.get("t") is not None else {}
                        if ty.get("arr"):
                            self.env.setdefault(v["d"], _zero_array(ty.get("c", "")) or [0] * int(ty["arr"]))
                        else:
                            self.env.setdefault(v["d"], {} if ty.get("rec") is not None else 0)
        elif k == "IfStmt":
            if self.truth(self.ev(s["c"][0])):
                self.st(s["c"][1])
            elif len(s["c"]) > 2 and s["c"][2] is not None:
                self.st(s["c"][2])
        elif k == "SwitchStmt":
            v = self.ev(s["c"][0])
            if isinstance(v, Aff):
                raise NotConst("switch over a quotient-dependent value")
            groups = switch_cases(s)
            start = None
            for i, g in enumerate(groups):
                if any(l["lo"] is not None and l["lo"] <= v <= l["hi"] for l in g["labels"]):
                    start = i
                    break
            if start is None:
                for i, g in enumerate(groups):
                    if any(l["en"] == "default" for l in g["labels"]):
                        start = i
                        break
            if start is None:
                return
            try:
                for g in groups[start:]:
                    for c in g["stmts"]:
                        self.st(c)
            except _Break:
                pass
        elif k in ("WhileStmt", "DoStmt", "ForStmt"):
            if k == "ForStmt":
                init, cond, inc, body = s["c"][0], s["c"][1], s["c"][2], s["c"][3]
                if init is not None:
                    self.st(init)
            elif k == "WhileStmt":
                cond, body, inc = s["c"][0], s["c"][1], None
            else:
                body, cond, inc = s["c"][0], s["c"][1], None
            first = k == "DoStmt"
            try:
                while first or cond is None or self.truth(self.ev(cond)):
                    first = False
                    try:
                        self.st(body)
                    except _Continue:
                        pass
                    if inc is not None:
                        self.ev(inc)
            except _Break:
                pass
        elif k == "ReturnStmt":
            raise _Return(self.ev(kids(s)[0]) if kids(s) else None)
        elif k == "BreakStmt":
            raise _Break()
        elif k == "ContinueStmt":
            raise _Continue()
        elif k == "NullStmt":
            pass
        elif k in ("LabelStmt", "CaseStmt", "DefaultStmt"):
            c = kids(s)
            if c:
                self.st(c[-1])
        elif k == "GotoStmt":
            raise _Goto(s.get("label"))
        else:
            self.ev(s)

    # ------------------------------------------------------------ records and tables as rvalues
    def initlist(self, n):
        t = self.types[n["t"]] if n.get("t") is not None else {}
        rec = self.fn.tu.recs_by_id.get(t.get("rec")) if t.get("rec") is not None else None
        ch = kids(n)
        if rec is None:
            if t.get("arr") is not None:
                return [self.ev(c) for c in ch]
            raise NotConst("initialiser list of a non-record (%s)" % t.get("s"))
        out = {}

        def put(prefix, v):
            if isinstance(v, dict):
                for k2, v2 in v.items():
                    out[(prefix + "." + k2) if prefix else k2] = v2
            else:
                out[prefix] = v
        if rec.get("kind") == "union":
            uf = n.get("ufield")
            if uf is None or not ch:
                return out
            put(uf, self.ev(ch[0]))
            return out
        fields = [f for f in rec.get("fields", []) if f.get("n") or f.get("rec") is not None]    # unnamed bit-fields take no initialiser
        for f, c in zip(fields, ch):
            put(f["n"], self.ev(c))
        return out

    def member_of_value(self, n):
        """member of a record that is not held in a variable (a call result, a compound literal)"""
        names = []
        x = n
        while x is not None and x.get("k") == "MemberExpr":
            if x.get("n"):
                names.append(x["n"])
            base = x
            x = strip(x["c"][0]) if x.get("c") else None
            while x is not None and x.get("k") in CASTS and x.get("c"):
                x = strip(x["c"][0])
        v = self.ev(x)
        if not isinstance(v, dict):
            raise NotConst("member of a non-record value")
        tmp = ("__tmp__", ".".join(reversed(names)), x.get("t"))
        self.env["__tmp__"] = v
        try:
            return self.load(tmp)
        finally:
            del self.env["__tmp__"]

    def global_table(self, n):
        """a constant array with static storage named by a DeclRefExpr (of this function or of the unit) as a list"""
        if n.get("dk") not in ("var", "gvar", None):
            return None
        key = (self.fn.name, n.get("n"))
        if key not in self._tabs:
            from core import init_value
            g = self.fn.tu.global_var(n.get("n"), func=self.fn.name) or self.fn.tu.global_var(n.get("n"))
            if (g is None or (g.get("init") is None and "val" not in g)) and GLOBALS.get("fn") is not None:
                g = GLOBALS["fn"](n.get("n")) or g
            vals = None
            if g is not None:
                vals = g.get("val") if "val" in g else init_value(g.get("init"))
                hops = 0
                while isinstance(vals, dict) and ("ref" in vals or "decl" in vals) and hops < 4:
                    # a pointer variable initialised with the address of a table: the table
                    nm = vals.get("ref") or vals.get("decl")
                    g2 = (GLOBALS["fn"](nm) if GLOBALS.get("fn") else None) or self.fn.tu.global_var(nm)
                    vals = None if g2 is None else (g2.get("val") if "val" in g2 else init_value(g2.get("init")))
                    hops += 1
                if isinstance(vals, str):
                    vals = list(vals.encode("latin-1", "replace")) + [0]
                elif isinstance(vals, list):
                    vals = [(CPtr(list(x.encode("latin-1", "replace")) + [0], 0) if isinstance(x, str) else x) for x in vals]
            self._tabs[key] = vals
        return self._tabs[key] if isinstance(self._tabs[key], list) else None

    def table_obj(self, b):
        """the (nested) list a subscript base stands for"""
        b = strip(b)
        while b is not None and b.get("k") in CASTS and b.get("c"):
            b = strip(b["c"][0])
        if b is not None and b.get("k") == "StringLiteral" and isinstance(b.get("s"), str):
            return list(b["s"].encode("latin-1", "replace") + b"\0")
        if b is not None and b.get("k") == "ArraySubscriptExpr":
            outer = self.table_obj(b["c"][0])
            idx = self.ev(b["c"][1])
            if isinstance(idx, Aff):
                _undecided(idx.sg, lambda t: idx.c + idx.k * t, "table index %r depends on the parameter" % idx)
            if not isinstance(outer, list) or not (0 <= idx < len(outer)):
                raise Abort("index %s outside a table" % idx)
            return outer[idx]
        if b is not None and b.get("k") == "MemberExpr":
            v = self.load(self.lv(b))
            if isinstance(v, list):
                return v
            raise NotConst("member %s is not a table" % expr_text_safe(b))
        if b is None or b.get("k") != "DeclRefExpr":
            raise NotConst("subscript of a computed array: %s" % expr_text_safe(b))
        if b.get("d") in self.env and isinstance(self.env[b["d"]], list):
            return self.env[b["d"]]
        if b.get("d") in self.env and isinstance(self.env[b["d"]], CPtr):
            p_ = self.env[b["d"]]
            return p_.buf[p_.off:] if p_.off else p_.buf
        vals = self.global_table(b)
        if not isinstance(vals, list):
            raise NotConst("array %s has no constant initialiser" % b.get("n"))
        return vals

    def table_read(self, n):
        vals = self.table_obj(n["c"][0])
        idx = self.ev(n["c"][1])
        if isinstance(idx, Aff):
            _undecided(idx.sg, lambda t: idx.c + idx.k * t, "table index %r depends on the parameter" % idx)
        if isinstance(vals, list) and isinstance(idx, int) and not (0 <= idx < len(vals)):
            # a cell one row further on, reached by running over the end of a row of a table of rows (rows are contiguous)
            b = strip(n["c"][0])
            while b is not None and b.get("k") in CASTS and b.get("c"):
                b = strip(b["c"][0])
            if b is not None and b.get("k") == "ArraySubscriptExpr":
                outer = self.table_obj(b["c"][0])
                i = self.ev(b["c"][1])
                if isinstance(outer, list) and isinstance(i, int) and outer and all(isinstance(r, list) and len(r) == len(vals) for r in outer):
                    flat = i * len(vals) + idx
                    if 0 <= flat < len(outer) * len(vals) and not isinstance(outer[0][0], list):
                        vals, idx = outer[flat // len(vals)], flat % len(vals)
        if not isinstance(vals, list) or not (0 <= idx < len(vals)):
            raise Abort("index %s outside a table of %s" % (idx, len(vals) if isinstance(vals, list) else "?"))
        v = vals[idx]
        if isinstance(v, list):
            return v
        if not isinstance(v, int):
            raise NotConst("non-integer table entry")
        return v

    def run(self, args, steps=0):
        """args: values of the parameters in order -> returned value"""
        self.env = {p["d"]: (dict(v) if isinstance(v, dict) else v) for p, v in zip(self.fn.params, args)}
        self.steps = steps
        self._static_ds = []
        try:
            try:
                self.st(self.fn.body)
            except _Goto as g:
                self.resume_at(g.args[0])
        except _Return as r:
            return r.v
        finally:
            for d in self._static_ds:
                if d in self.env:
                    self.statics[(self.fn.name, d)] = self.env[d]
        return None

    def resume_at(self, label):
        """continue at a label: run the labelled statement, then whatever follows it at each enclosing level (a goto may lead
        into the branch of another case; leaving a switch by break ends that level).  Gotos into loops are not supported."""
        for _ in range(64):
            lab = [x for x in self.fn.walk() if x.get("k") == "LabelStmt" and x.get("label") == label]
            if len(lab) != 1:
                raise NotConst("label %s" % label)
            try:
                node = lab[0]
                sub = kids(node)
                if sub:
                    self.st(sub[-1])
                self.after(node)
                return
            except _Goto as g:
                label = g.args[0]
        raise NotConst("goto chain")

    def after(self, child):
        par = self.fn.parent(child)
        while par is not None and par is not self.fn.body.get("__none__"):
            k = par.get("k")
            if k == "CompoundStmt":
                sibs = kids(par)
                idx = [i for i, x in enumerate(sibs) if x is child][0]
                gp = self.fn.parent(par)
                try:
                    for s2 in sibs[idx + 1:]:
                        self.st(s2)
                except _Break:
                    if gp is not None and gp.get("k") == "SwitchStmt":
                        child, par = gp, self.fn.parent(gp)
                        continue
                    raise
                if par is self.fn.body:
                    return
                if gp is not None and gp.get("k") == "SwitchStmt":
                    child, par = gp, self.fn.parent(gp)
                    continue
            elif k in ("WhileStmt", "DoStmt", "ForStmt"):
                raise NotConst("goto into a loop")
            elif k == "FunctionDecl":
                return
            child, par = par, self.fn.parent(par)
