#!/usr/bin/env python3
"""regenerates MANIFEST.json from the per-property table below (keeps the file valid at all times)"""
import json, os
HERE = os.path.dirname(os.path.abspath(__file__))
CLAIMED = {
 "C20": dict(
   text="Decides the structural mechanism of the property on every path of every unit of the build: the only calls into clock/TZ/locale/env facilities are six listed sites, each reachable only through a CFG-proved gate (no --base given, literal `now`-style input, single-argument dseq, zone spec `localtime`, --locale/--from-locale); the two locale options have disjoint transitive write/read sets over the name tables; parser code never reads output tables and vice versa; the 16 setter/resetter siblings agree. Static who-may-call/effect analysis is the right level because the property is the absence of a dependency, which no finite set of environments can show.",
   note="Trusted: clang-14 AST/CFG under the build's preprocessor flags; libc functions outside the listed set are environment-independent in the C locale; child sort(1)/cut(1) of dsort not analysed; strptime unit exempt by definition (its isolation is checked).",
   technique="static analysis: closed-world call-site table + CFG dominance gates + transitive mod/ref sets + sibling agreement (libTooling facts, Python rules)",
   ref="DESIGN.md §4 C20"),
}
NA = {
}
CLAIMED["C02"] = dict(
   text="Decides, for every representation tag and every format string at once, the structural necessary conditions of `formatting is independent of the internal representation`: each accessor/dispatch the date printers reach handles every representation that can reach it; no print-record slot is printed before its lazy fill-in; the overloaded day slot keeps its tag; the printers do not branch on the tag outside exhaustive dispatches. Also checks the Hijri month table (monotone, 29/30-day steps, equal to data/ummulqura.tab). Does not decide that conversions are arithmetically correct or that round trips are identities.",
   note="Tag-specialised abstract interpretation (bounded powerset of states, cells addressed by ASTRecordLayout) of dt_strfd/dt_strfdt and the helpers that receive the print record; assumes a valid date has non-zero components once filled; accessors signal `unhandled` by their default branch. 5 recorded known findings (day-of-year, week counts and business day of Hijri dates: semantics undefined by the project); five further gaps found by the rule were repaired.",
   technique="static analysis: tag-specialised abstract interpretation over clang CFGs (typestate of tagged unions), dispatch-coverage matrix, table check",
   ref="DESIGN.md §4 C02")
PENDING = {}
CLAIMED["C12"] = dict(
   text="Decides the structural mechanisms `conversion follows the zone file` depends on, for all zone files and instants at once: every carrier of a transition index is at least 31 bits wide and no narrowing conversion is applied to one; the transition bisection makes progress on each non-returning path, answers keys at/after the last (clamped) transition before the loop and returns its probe only under tl <= t < tu; every comparison against a cached/handed-out range treats it as half-open [prev,next); the range is built from one index; the loader walks the TZif blocks with exactly the record sizes of the format (v1 block skip, 8/4-byte times, 1-byte types, 6-byte ttinfo) and reads the counts from the right header fields; the byte readers are big-endian; the two glue functions call the right direction and record the sign of the offset consistently. Does not decide the offsets themselves.",
   note="Trusted: RFC 8536 layout constants in the rule; clang record layouts = gcc's; callers of __find_trno pass max = ntr or an index whose transition is > t (checked for __offs by the half-open rule).",
   technique="static analysis: type/width facts from record layouts, CFG reachability (found-guard, progress), operator discipline on range bounds, linear-form comparison of loader cursor arithmetic with the TZif format",
   ref="DESIGN.md §4 C12")


CLAIMED["C14"] = dict(
   text="Exhaustively compares the leap-second tables as compiled into the library (six parallel encodings, extracted by the compiler front end) with lib/leap-seconds.list: lengths, sentinels, +1 steps, instants, and the day/ymd/ymcw/hms encodings computed independently from the record layouts and a first-principles calendar; and decides the structure of every lookup: the bisection returns an index only for an interval that contains the key (found-guard / lower-bound rule, strict progress), 64-bit instants are never narrowed to the 32-bit key type without a two-sided clamp (so the last offset stays in force for ever), table indices are used only as indices (never as a count of seconds), and [i+1] reads are bounded. Does not decide the SI-second arithmetic around the looked-up correction.",
   note="Trusted: leap-seconds.list as authority; NTP epoch offset 2208988800; clang constant evaluation of the initialisers; gcc and clang agree on bit-field layout of dt_ymd_t/dt_ymcw_t/dt_hms_t (SysV ABI).",
   technique="static analysis: table extraction and comparison with an independent oracle; CFG reachability for the search loops; guard analysis of narrowing conversions; def-use typing of index variables",
   ref="DESIGN.md §4 C14")


CLAIMED["C13"] = dict(
   text="History independence is structural, so it is decided structurally and for all histories at once: (1) closed whole-program inventory of every non-const static-storage object that is written or whose address escapes, each with a category and a frozen writer set — a new object or writer is reported; (2) the one cache that answers lookups (per zone handle) is replaced only as a whole from a single range lookup, is compared half-open and carries a full-width index; (3) the generation-counter scratch table of the character-class helpers never reuses generation 0 and is cleared when the counter restarts; (4) the name registry of opened zones reports a hit only when stored name and key end together (no prefix hits); (5) in every per-item loop of the nine tools each variable that lives across iterations and is modified inside is a counter, a sticky status, or provably (CFG) assigned before any use in each iteration.",
   note="Assumes heap state is reachable only through the inventoried registries; flex/bison statics (yy*) are reset per parse; the locale tables are option state (decided by C20). Accepted loop-carried variables are listed with reasons in rules/c13.py (LOOP_OK) and in the evidence.",
   technique="static analysis: whole-program effect inventory of static storage, cache write/compare discipline, CFG def-before-use analysis of per-item loops",
   ref="DESIGN.md §4 C13")


CLAIMED["C08"] = dict(
   text="A comparison of integers is a total order by construction; the check decides that the integers compared are the right ones, for every pair at once: the representations compared as raw words are exactly those whose bit-field layout is ordered by chronological significance (ymcw goes to its own comparison); every `return c` of the three-way comparisons is guarded (CFG) by exactly the relation sign(c) between left and right operand, with fields taken in y, m, c order; no wrap-prone unsigned difference is reduced modulo a non-power-of-two; dt_dtcmp never reads the date/time sandwich of a value tagged as packed (abstract interpretation over the record layout); the range matrix decodes to the documented 16-cell table and both range predicates agree; dtest's option table and operand order, and dsort's key formats / separator / child command lines are as required and the time key is written for every kind of value that has a time part (guard folded over date-only / time-only / date-time).",
   note="Assumes zeroed padding bits in compared words; sort(1)/cut(1) children are not analysed (their command lines are). Tables are decoded by constant folding of the source expression over domains of 3 resp. 16 values.",
   technique="static analysis: record-layout facts, CFG guard/return agreement, tag-specialised abstract interpretation, table decoding by constant folding",
   ref="DESIGN.md §4 C08")


CLAIMED["C17"] = dict(
   text="The expression is the program and dgrep's engine its interpreter; the check decides the interpreter's structure for all expression trees: the union slot holding a comparison atom is read only under a DEX_VAL test on that access path; the evaluator combines both children of a conjunction with &&, of a disjunction with ||; negation push-down is the involution CONJ<->DISJ with both children's flags toggled (folded over {0,1}) and each parser-producible operator mapped to one with the complementary accept set (abstract interpretation of __nega_kv + constant folding of the matcher's cases over sign in {-1,0,1}); whole-date and specifier comparisons accept exactly the signs their operator names say with the line's value on the left; each DNF rewrite leaves a tree (symbolic execution of the pointer assignments of every branch, aliasing helpers derived from their bodies), matching the release routine; grammar precedences OR<AND<NOT with %expect 0; in the generated parser the `!` action toggles the negation flag and the static scratch atom is cleared as a whole before each atom; dgrep writes a selected line once, whole, with its newline.",
   note="Assumes bison/flex implement the declared precedences; comparison functions are the order (C08); nodes are created only by parser actions, make_dexpr, dexpr_copy.",
   technique="static analysis: union typestate via CFG guards, table decoding by constant folding / abstract interpretation, symbolic heap execution for ownership, CFG write-once check",
   ref="DESIGN.md §4 C17")


CLAIMED["C10"] = dict(
   text="Abstract interpretation of every text consumer and every bounded writer in lib/ and src/, covering all byte strings and all buffer sizes by abstraction rather than by samples: (RF4) a headroom dataflow over the CFG of each function that advances a `const char *` proves that a cursor which stepped over a byte not known to be non-NUL is never dereferenced, advanced again, passed on or handed out on a success path (non-NUL knowledge comes from atomic conditions, switch labels, predicate calls and constant folding of the tested expression with the byte set to 0), with the tokenizer/field-parser contracts checked at every call site; (RF5) an interval + difference-bound analysis with trace partitioning proves, by case split on bsz = 0..K-1 and bsz >= K, that each of the 35 (buf,bsz) writers stores only inside its buffer and returns at most bsz, summaries being computed bottom-up and snprintf results required to pass the clamping helper; plus orientation of remaining-space arguments, tokenizer progress, the wrap discipline of the character-class generation counter, and divisor/index ranges where they are locally decidable.",
   note="Unknown (not locally decidable) divisor and subscript sites are listed in the evidence as notes, not findings; a site proven when the rule was calibrated (rules/tables/proven_sites.json) must stay proven. Length-bounded scanners (xmemmem, dt_io_find_strpdt*, tzm_find) are excluded from RF4 with reasons. Assumes NUL-terminated inputs and bsz writable bytes.",
   technique="static analysis: abstract interpretation (headroom dataflow; intervals + difference bounds with trace partitioning and bottom-up summaries) over clang CFGs",
   ref="DESIGN.md §4 C10")


CLAIMED["C18"] = dict(
   text="Decides the structural necessary conditions of transparency, not schedule independence: an interval + difference-bound abstract interpretation of prchunk_fill, started from the window invariants (bytes filled and consumed offset within the mapping, lines recorded within the line table) proves for every read() schedule that the read target, the line-end stamps, the look-behind for CR and the carried-over tail copy stay inside the 16 MiB mapping, that every index into the line table is below its extent, and that the invariants hold again at every successful return (an inductive argument over fills); the read count moves the fill cursor only when positive; failure is reported only with an empty window or because a single line does not fit it (no line is dropped at the end of input); every byte class the reader overwrites in place has a restore in each consumer's copy-through path (the CR restore, missing until fix 54975b9, included); each sed-mode loop writes prefix, converted value and rest exactly once in order.",
   note="Independence of the output from how the stream is cut into read() results is a statement about schedules and is not decided statically; only the memory-safety and pairing conditions without which lines are lost or corrupted are. Assumes read() returns at most the count requested.",
   technique="static analysis: abstract interpretation (intervals + difference bounds, memchr span model, exact difference facts) over the clang CFG; CFG pairing/ordering rules for the consumers",
   ref="DESIGN.md §4 C18")


CLAIMED["C19"] = dict(
   text="Decides memory safety of the zone file and zone map loaders for all file contents at once: a linear-form abstract interpretation (each variable an exact linear form over symbols standing for the header counts and the file size, branch conditions kept as facts, trace partitioning on the version byte, a syntactic prover that searches a non-negative combination of facts) shows for every access of zif_open, tzm_open and the map validator to the file image that offset >= 0 and offset + length <= file size, and for every store into the object zif_open allocates that it lies inside the malloc'ed size (difference bounds from the interval engine cover the compaction loop); offsets are computed in 64 bits. Further: every version the header switch accepts is decoded by the data switch; transition types copied from the file are compared, strictly and for all indices, with the number of types before the object is returned, and that number is >= 1; tzm_open succeeds only if the validator accepted (image, size); the validator accepts only if the pool offset lies inside the file and compares the zone offsets with the pool size; tzm_find never dereferences an empty range and starts the upper half of its bisection behind the probed record (the zone offset word is located from the key's terminator); the map compiler's record word and the reader's decoding agree (mask, shift, byte order) and the masked zone offset is range checked at the call.",
   note="The argument that tzm_find's byte scans stay inside a validated map rests on the NUL delimiters the validator demands and is written out in DESIGN.md, it is not decided by the tool; faithfulness of the bisection for all maps (sortedness of the source) is not decided. Assumes the file does not change while mapped.",
   technique="static analysis: linear-form abstract interpretation with symbolic header counts and a syntactic Farkas-style prover; interval/difference-bound analysis; CFG dominance/guard rules; constant agreement between sibling encoder/decoder",
   ref="DESIGN.md §4 C19")


CLAIMED["C01"] = dict(
   text="Decides the data and closed formulas the calendar conversions are built from, against an independent first-principles Gregorian / ISO 8601 oracle and for the whole supported range 1601..4095 at once: the 28-year Jan-01 weekday table is right on exactly the interval the guard of __get_jan01_wday uses it for directly, and the 400-year equivalence map (decoded from its if-chain) sends every other year to a year inside that interval with the same weekday; the cumulative month table and its leap threshold; the case labels of __get_isowk / __get_z31wk are exactly the residues mod 400 with 53 weeks resp. a hang-over week; the leap year predicate; the year-start formula __jan00_daisy; the closed Neri-Schneider formula __ymd_to_daisy (no loop, no table), folded for the first of each of the 29,940 months of the range and shown additive in the day of the month by its polynomial summary; the two readjustment tests of __daisy_get_year against the convention day = year start + day of year; the period-length helpers take the year's leapness from __leapp only (they use the year solely as a call argument); every week carry across a year boundary in the ISO week code tests the leapness of the year that is crossed (y++ forward, --y backward); the Lilian / Julian / Matlab bases in both directions and the Unix epoch base and seconds per day; the validity bound of __daisy_to_ymd against the last day of the range (the 606-day shortfall is known finding D21, pinned by test dconv.122); every converter dt_conv_to_{daisy,ymd,ymcw,ywd,yd} has a case for every source representation the property names (40 pairs). Equality of every computed conversion result for all 911,280 days is NOT decided: values produced by loops, searches and the 911,280-point inverse (the Neri-Schneider inverse __daisy_to_ymd, __yday_get_md, __daisy_get_year's estimate, the ywd/ymcw constructors) are outside static reach.",
   note="Tables are folded from their initialisers; closed formulas without loops (leap predicate, year start) are folded over their finite domain by the constant folder, anything with loops or memory is rejected as not decodable (exit 2). The Lilian base follows the repository's documented convention (days since 1582-10-15, that day being 0).",
   technique="static analysis: table / case-label / constant decoding from the AST compared with a first-principles oracle; guard-interval vs table-validity agreement; switch exhaustiveness",
   ref="DESIGN.md §4 C01")


CLAIMED["C04"] = dict(
   text="Decides month / year addition structurally, for all dates and all signed counts: in __ymd_add_m, __ymcw_add_m and __bizda_add_m the carry starts as month + n, one turn of every loop leaves 12*year + carry unchanged (linear effect of the loop body) and the month is set from the carry, so 12*year + month moves by exactly n; the stored month lies in 1..12 for every input month 1..12 and every n (interval analysis); the five year adders add exactly n to the year; month / year adders write only year and month (ywd: year and the derived hang) and reach no fixup, so the day is kept and steps within one invocation compose; each fixup (__ymd_, __ymcw_, __ywd_, __yd_fixup) writes only its field, stores the maximum only where the field exceeds it (difference bound from the guard) and skips only values that every period has (28, 4, 52, 365); dt_dfixup hands every calendar to its fixup; dt_fixup clamps every kind of value that has a date part (guard folded over date-only / time-only / date-time); the period-length helpers behind the clamps take the leap rule from __leapp only; the fixup dominates every converter call in dt_dconv and every read of the date part in dt_strfdt.",
   note="The clamp targets (__get_mdays, __get_mcnt, __get_isowk, __get_ydays) are computed values: their tables are decided under C01, their arithmetic is not. A month adder rewritten without loops is reported as undecided (exit 2) unless the interval rule finds a month outside 1..12. Assumes results inside the 12-bit year field.",
   technique="static analysis: linear loop-invariant check by symbolic effect of loop bodies, interval / difference-bound abstract interpretation, write-set (effect) analysis, call-graph reachability, CFG dominance",
   ref="DESIGN.md §4 C04")


CLAIMED["C06"] = dict(
   text="Decides the refinement rule structurally for all durations and all subsets of the fixed-ratio units week / day / hour / minute / second: in precalc the total is made non-negative, the unit blocks come in strictly decreasing unit order, each divides and reduces by the same constant and the seconds slot receives the rest, so the printed components recombine to the total truncated toward zero; an interval analysis partitioned by the four request flags proves, for each of the 16 flag combinations, every refined component inside [0, next-coarser-requested/own - 1] and the coarsest non-negative; sibling agreement ties the constants to the specifiers: the specifier that sets a flag (determine_durfmt) prints the field (__strfdtdur) that the block guarded by that flag fills (precalc), with the number of seconds of that specifier's unit; the print loop never writes the precomputed components (each specifier may occur repeatedly) and exactly one minus sign is written, before the loop, from the sign of the total; on every path of precalc that fills the seconds slot, sign * (components * units + seconds) equals days*86400 + seconds + leap correction as a polynomial identity (the correction loses its sign together with the total); every product of a day count with 86400 or 604800 in ddiff and dt-core is computed in 64 bits; every case of dt_ddiff that borrows a day from the date part reports it in res.fix after the last whole assignment of the result, and the time part dt_dtdiff stores next to a calendar duration is, as a polynomial identity on all paths, `flip the sign if the date part is negative, then take one day off the magnitude iff a day was borrowed`.",
   note="That dt_dtdiff delivers the true difference as days + seconds, and the month / year / quarter split (not fixed ratios) are not decided here. The leap second correction is attributed to the seconds slot only, so 'seconds < 60' is not claimed.",
   technique="static analysis: structural decoding of the unit cascade, trace-partitioned interval abstract interpretation, sibling agreement across three switch tables, write-set analysis, type-width rule on products",
   ref="DESIGN.md §4 C06")


CLAIMED["C09"] = dict(
   text="Decides the case-by-case agreement between the separately written parser and printer switch statements, the structural precondition of the round trip for every format string at once: for the date (cardinal and Roman) and time families every specifier has a working case on both sides; the parser stores into the scratch field the printer prints from; where the printer honours the padding modifier the parser reads with a padding-aware reader; the limits the parser accepts contain the range the printer can produce for valid values (month 12, day 31, weekday 7, count 5, day-of-year 366, week 53, hour 23, minute 59, second 60, quarter 4); every call of the fixed-width digit printers asks for a width the helper has digits for (interval analysis of the width argument); the 12-hour clock as printed (digits and AM/PM marker, folded over the 24 hours) reads back through the parser's rule as the same hour; the length range of locale names that bounds the line scanner's search window is a properly computed running minimum / maximum; the Roman numeral printer is a proper decimal cascade for its digit helper (thousands loop while d >= 1000 with step 1000, then /100 %100, /10 %10, units).",
   note="parse(format(x)) = x for all values and all format strings is NOT decided: it also depends on computed digits, adjacent variable-width fields and the calendar guess from the set of parsed fields. The tokenizer shared by both sides is covered by C10.",
   technique="static analysis: sibling cross-check of switch tables (case sets, field read/write sets, callee capabilities, literal limits), interval analysis of width arguments, table decoding by constant folding over 24 values",
   ref="DESIGN.md §4 C09")


CLAIMED["C11"] = dict(
   text="Decides conservation of the total number of seconds in the routines that split and recombine it, for all inputs, as polynomial identities over their statements (a truncating division is a quotient symbol determined by its operands and x % K is x - K*(x / K); a comparison is a 0/1 symbol determined by the polynomial it tests; both paths of every branch are summarised): divrem returns q, r with q*d + r == n; dt_tadd_s returns carry*(86400 + corr) + 3600h' + 60m' + s' == 3600h + 60m + s + durs on its regular path, and its leap-second-day path is confined to remainders >= 86400; __sexy_to_daisy yields 86400*(day - unix base) + 3600h + 60m + s == the epoch value, including the borrow chain and re-normalisation for negative epochs, with 0 <= s, m < 60 and 0 <= h < 24 at the stores (interval analysis) and the base being 1970-01-01; __to_unix_epoch is the inverse linear form with the same base. Structurally: dt_dtadd takes the day carry from the unreduced count (carry = dv / 86400 before dv %= 86400), passes the reduced seconds to dt_tadd_s, adds its carry and hands the sum to the date adder; the three duration scalers (dt_dtadd, __sexy_add, ddiff's __strf_tot_secs) use 3600 / 60 / 1 through their fall-through chains, in 64 bits.",
   note="Machine overflow is not modelled by the identities (the split in dt_dtadd keeps dt_tadd_s's argument below one day). That the date adder moves the date by the carried days is C03 (not claimed); leap second corrections (corr != 0) and 24:00:00 decay are not decided.",
   technique="static analysis: polynomial symbolic summaries of loop-free routines (path-complete), interval abstract interpretation, CFG order / data-flow rules, sibling agreement of unit tables",
   ref="DESIGN.md §4 C11")


CLAIMED["C15"] = dict(
   text="Decides structural necessary conditions of termination and of the range test in dseq, each for all bounds and increments: the refusal of a naught increment or an undefined direction dominates the emitting loop and the call of the anchoring routine; the direction of time-only bounds is read from the value slot of time units only under a test of the duration type (a date unit overlays the slot and cannot move a time); date_add adds the midnight carry of every component of a compound increment to its accumulator, inside the component loop and after the component's dt_dtadd, and stores the accumulator for time-only values; __in_range_p hands the bounds to the range predicate in direction order and its four time-only tests are the mirror-consistent forms for plain and wrapping runs; the weekday skip bits agree between setter table and tester; every loop that tests __in_range_p advances the tested value through the increment; the emitting loop tests the clamped iterate (dt_fixup), since month / year steps keep unclamped days on purpose.",
   note="That the values printed are exactly FIRST + k*INC between the bounds, without duplicates, is NOT decided: it quantifies over an unbounded iteration of computed dates. Relies on the adders (C04, C11) and the order (C08).",
   technique="static analysis: CFG dominance / reachability, union typestate via guards, loop-scoped accumulation rule, mirror agreement of guarded return expressions, table agreement",
   ref="DESIGN.md §4 C15")


CLAIMED["C07"] = dict(
   text="Decides three structural necessary conditions of the business-day closed forms in lib/bizda.c, and nothing more: (1) every remainder that is used as a residue (a weekday offset that is compared or subtracted as such) is taken from an operand that is non-negative in the integers, i.e. before any wrap into an unsigned type (interval analysis of the operand's summands; remainders that stay paired with their quotient or are reduced again inside a biased sum are exempt) -- the rule that exposed and now guards the repaired defect `dadd 1988-07-13 -290b` = Saturday; (2) the switch over weekday + remainder in __get_b_equiv has a case for every value its operand can take (operand interval under the contract weekday in 1..7, default edge dead when all values are labelled); (3) both directions use the same week (5 business days per 7 days and back).",
   note="That the closed forms count Monday-Friday days exactly for every (weekday, count), the month tables of business days and the bizda <-> ymd conversions are NOT decided: they are value-level facts. This is a thin claim and says so.",
   technique="static analysis: interval abstract interpretation of % operands in the integers, switch coverage against the operand interval, sibling constant agreement",
   ref="DESIGN.md §4 C07")


CLAIMED["C05"] = dict(
   text="Decides structural necessary conditions of `the printed difference inverts addition` in the five difference routines, and nothing more: (1) each of __ymd_diff, __yd_diff, __ywd_diff, __ymcw_diff begins by ordering its two operands -- a swap under `first later than second` (d1.u > d2.u or __ymcw_cmp(d1, d2) > 0, in any spelling) that also sets the sign flag, before any other use of the operands -- so diff(B, A) is diff(A, B) with the sign flipped by construction; __daisy_diff is the signed d2 - d1; (2) the coarse difference is the linear form the adders invert: months = 12 * (y2 - y1) + (m2 - m1) for ymd / ymcw, split back with the same 12; years = y2 - y1, days = d2 - d1 for yd; weeks = c2 - c1 for ywd; (3) every borrow gives up exactly one period and adds that period's length: the month before (y2, m2) is formed first (1 -> 12 with the year decremented), __get_mdays of exactly that (year, month) is added, the month count drops by one -- for both borrows of __ymd_diff (the February double borrow) and the one of __ymcw_diff; a week is 7 days and a year is __get_isowk(year before the later operand's) weeks for ywd; a year is 365 + leap day for yd; a month is borrowed only when the day part is short and a month is there to give; (4) dt_ddiff converts both operands to the calendar of the duration type and hands them, first operand first, to that calendar's routine.",
   note="That the duration, added back largest unit first, lands exactly on the later value for all pairs, the leap-day matrix of __yd_diff, and the time-part carry (its sign handshake is decided under C06) are NOT decided: they relate two independently written value computations. Thin claim, stated as such.",
   technique="static analysis: statement-order and swap-shape rules on the AST, linear forms over operand members, borrow pairing (step -> length -> decrement) by node order, dispatch and operand-order agreement",
   ref="DESIGN.md §4 C05")


CLAIMED["C16"] = dict(
   text="Decides structural necessary conditions of nearest-target rounding in src/dround.c, and nothing more: (1) the eight value-rounding siblings (hour, minute, second; day of month, business day, month, weekday, ISO week) are one and the same four-way decision -- (forward && F < T) || (backward && F > T): no carry; F == T && !next: stays; forward: carry up; else: borrow down -- with the same field and target in all tests, strict comparisons, the direction flag meaning what its definition says, only increments in the forward arm and only decrements in the backward arm, the carry going into the field directly above F, wrap constants equal to that field's size (24, 60, 12), gotos staying on their side; (2) on both paths that do not carry, the value stored into F is symbolically the value F was compared with (min / clamp forms normalised): a target clamped to the period's length must be clamped before the comparison -- the rule that exposed and now guards the repaired defect `dround -n 2012-02-29 31` = unchanged; (3) both co-class roundings reach the remainder only through the accepting edges of the zero-divisor and divides-the-day tests (CFG dominance and reachability), take the remainder of the rounded value by that divisor, leave a multiple untouched without --next and move by divisor - remainder / divisor / remainder otherwise; (4) seconds since midnight and months since year 0 are split with the constants they were packed with, a year is 12 and a quarter 3 months, an underflow borrows 86400 s; (5) co-class business-day rounding lands a weekend day on Friday going back and on Monday going forward; (6) dt_round turns the day carry of the time rounding into that many days added to the date, resets it, and only then rounds the date.",
   note="That the result is the nearest value with the requested field for every input, that finer fields keep their values, and idempotence as a whole are NOT decided: they compare the result with every other candidate. A rounding sibling rewritten in another shape is reported as not recognised (exit 2). Thin claim, stated as such.",
   technique="static analysis: sibling agreement on a four-way decision template (AST), symbolic equality of compared and stored value on the no-carry paths, CFG dominance / reachability of divisor gates, linear forms of the moves, packing / splitting constant agreement",
   ref="DESIGN.md §4 C16")


CLAIMED["C03"] = dict(
   text="Decides the structure all four carry routines share (__ymd_fixup_d, __yd_fixup_d, __ymcw_fixup_c, __ywd_fixup_w), each item a necessary condition of exact day / week addition: the value is kept as is only within 1..L with L not above the shortest period (28, 365, 4, 52); the forward loop is `while (x > (len = LEN(current position))) x -= len` -- strict comparison, length of the period being left, taken before the position advances, subtracted once; the backward loop moves the position first, then adds LEN(new position) once, and repeats while x < 1 -- so the result lies in 1..LEN(final position); the month wraps are (++m > 12: ++y, m = 1) and (--m < 1: --y, m = 12) and the month stays in 1..12 (interval analysis); a week is 7 days (ymd, yd, bizda, day counts) or one unit of the week count handed to the week carry (ywd, ymcw); dt_dadd_d / dt_dadd_w dispatch every calendar to its adder (12 pairs).",
   note="That the result is the day exactly n days away is NOT decided: it depends on the period lengths the loops look up (tables under C01) and on the weekday / hang bookkeeping of the week calendars. A carry routine rewritten without these loops is reported as not recognised (exit 2).",
   technique="static analysis: loop shape / statement order rules on the AST and CFG, interval analysis of the month, constant and dispatch agreement",
   ref="DESIGN.md §4 C03")


# clauses added in the fourth session (after blind seeds were missed, or after defects reported by seeding sub-agents were repaired)
ADD = {
 "C01": "Also: the closed forms on top of the tables -- days of a month, weekday of the 1st of a month, days of a year -- are decoded as the small tables they stand for (look-ups replaced by the table coordinates, every entry compared with the definition: RF2-closed).",
 "C02": "Also (RF11-order): every value read of the lazily filled, overloaded month / day slots of the print record in the printers comes after the fill-in chain of its own specifier, so no specifier's text depends on the specifiers printed before it.",
 "C03": "Also (RF2-closed): the period lengths the carry loops look up, where they are closed forms over a tiny domain -- days of a month, occurrences of a weekday in a month (4 x 7 x 7 entries), business days of a month (4 x 7), days of a year -- are decoded over that whole domain and compared with the definition entry by entry.",
 "C07": "Also (RF2-closed): the number of Monday-Friday days of a month, a 4 x 7 table (days of the month x weekday of the 1st) spelled as a closed form in __get_bdays, is decoded over its whole domain and compared with the definition; the closed forms that take an unbounded day count are not folded (that would be sampling).",
 "C12": "Also: zif_utc_time returns t - x only for an x obtained as offs(t - estimate) in an iteration that ends on two equal estimates, zif_local_time is t + offs(t) (RF-fixpoint); the zeroed cache of a fresh zone is the empty range, so narrowing the search with its transition number requires an emptiness test, and the whole time line [MIN, MAX) is handed out (and cached) only for a zone without transitions (RF7c-valid) -- the rule that guards the repaired defect `dconv --zone Europe/Berlin 1960-06-01T00:00:00 2012-06-01T00:00:00` = +01:00 for the second instant.",
 "C13": "Also (RF7c-valid): the cache's initial, zeroed value is the empty range; __offs narrows the search with the cached transition number only under an emptiness test and __find_zrng hands out the whole time line only for a zone without transitions, so a miss in a wrongly narrowed search can no longer be cached and answer every later lookup (repaired defect 0a7164a).",
 "C14": "Also: the leap correction field overlays the upper bits of the duration's value slot (checked against the record layout); the producer of leap-aware differences stores it on every path after the slot (RF10-overlay, guards the repaired defect `ddiff 2012-03-01T00:00:10 2012-03-01T00:00:00 -f %rS` = -11); TAI / GPS labelled stamps are turned into UTC with the leap count looked up at the UTC instant (RF-fixpoint, shared with C12).",
 "C16": "Also (RF-fresh): a looked-up period length used by a rounding is the length of the period the result is in -- between the look-up and its use no path writes a field the look-up read (a month length taken before the year moves on).",
}
for _k, _v in ADD.items():
    CLAIMED[_k]["text"] += " " + _v


def main():
    props = [json.loads(l)["id"] for l in open(os.path.join(HERE, "properties.jsonl"))]
    checks = []
    for p in props:
        if p in CLAIMED:
            c = CLAIMED[p]
            checks.append({
              "property_id": p,
              "quick_cmd": "bin/check %s --tier quick" % p,
              "thorough_cmd": "bin/check %s --tier thorough" % p,
              "evidence_file": "evidence/%s.json" % p,
              "replay_cmd_template": "bin/check replay {path}",
              "engine": "dutfacts+rules",
              "level_claimed": {"category": "other", "text": c["text"], "design_ref": c["ref"]},
              "level_note": c["note"],
              "technique": c["technique"],
            })
    na = []
    for p in props:
        if p not in CLAIMED:
            na.append({"property_id": p, "reason": NA.get(p) or PENDING.get(p) or "static check not built yet (work in progress); see DESIGN.md §4/§5"})
    m = {
      "version": 1,
      "setup_cmd": "make -C engine",
      "hooks": {"guard": "DATEUTILS_VERIF", "enable": "none needed: the analyses read the unmodified sources (no hook commits)",
                "baseline_off_cmd": "make -C /repo -k check", "source_commits": [], "add_only": True},
      "engines": [{"name": "dutfacts+rules", "path": "engine/dutfacts.cc rules/*.py bin/check",
                   "serves_properties": sorted(CLAIMED), "kind_free_text": "clang-14 libTooling fact extractor (AST, CFG, record layouts, constant-evaluated tables) + repository-specific Python rule engine; no dateutils code is executed"}],
      "checks": checks,
      "not_applicable": na,
      "notes": "static analysis only; exit 2 of a check means analysis broken (anchor vanished), never pass/violation. known_findings.json lists recorded and fixed defects.",
    }
    json.dump(m, open(os.path.join(HERE, "MANIFEST.json"), "w"), indent=1)
if __name__ == "__main__":
    main()
