"""Harvest the compile commands of dateutils from its configured in-tree build.

`make -n -B` prints the compiler lines without running them.  `-o Makefile ...`
keeps make from re-running config.status (make executes Makefile-remake rules
even under -n).  Only the preprocessor-relevant words (-D/-U/-I/-std/-include)
are kept; warnings/optimisation flags do not change what clang parses.
"""
import os
import re
import shlex
import subprocess

LIB_TARGETS = ["libdut.a", "ltrcc", "tzmap", "tzraw"]
SRC_TARGETS = ["libdutio.a", "dadd", "dconv", "ddiff", "dgrep", "dround",
               "dseq", "dsort", "dtest", "dzone", "strptime"]
OLD = ["Makefile", "Makefile.in", "Makefile.am", "../config.status", "../configure",
       "../configure.ac", "../aclocal.m4", "../version.mk", "../version.mk.in"]


class CompdbError(Exception):
    pass


def _make_n(repo, sub, targets):
    cmd = ["make", "-n", "-B", "-k"]
    for o in OLD:
        cmd += ["-o", o]
    cmd += ["-C", os.path.join(repo, sub)] + targets
    p = subprocess.run(cmd, stdout=subprocess.PIPE, stderr=subprocess.PIPE, text=True)
    return p.stdout


def _parse(repo, sub, text):
    units = []
    for line in text.splitlines():
        if " -c " not in line:
            continue
        m = re.search(r"(?:^|;|\s)(gcc|cc|clang)\s", line)
        if not m:
            continue
        cmdline = line[m.start(1):]
        # the automake idiom: `test -f 'x.c' || echo './'`x.c
        cmdline = re.sub(r"`test -f '([^']+)' \|\| echo '[^']*'`\S+", r"\1", cmdline)
        try:
            words = shlex.split(cmdline)
        except ValueError:
            continue
        flags, src, obj = [], None, None
        i = 1
        while i < len(words):
            w = words[i]
            if w in ("-o", "-MT", "-MF"):
                if w == "-o":
                    obj = words[i + 1]
                i += 2
                continue
            if w.startswith(("-D", "-U", "-I", "-std=")):
                if w in ("-D", "-U", "-I"):
                    flags.append(w + words[i + 1])
                    i += 2
                    continue
                flags.append(w)
            elif w.endswith(".c") and not w.startswith("-"):
                src = w
            i += 1
        if src is None:
            continue
        units.append({"dir": os.path.join(repo, sub), "src": src, "obj": obj or src, "flags": flags})
    return units


def harvest(repo="/repo"):
    """-> list of {dir, src, obj, flags}; de-duplicated per (dir, obj)."""
    units = []
    for sub, tg in (("lib", LIB_TARGETS), ("src", SRC_TARGETS)):
        if not os.path.exists(os.path.join(repo, sub, "Makefile")):
            raise CompdbError("no configured Makefile in %s/%s" % (repo, sub))
        units += _parse(repo, sub, _make_n(repo, sub, tg))
    seen, out = set(), []
    for u in units:
        k = (u["dir"], u["obj"])
        if k in seen:
            continue
        seen.add(k)
        if not any(f.startswith("-std=") for f in u["flags"]):
            u["flags"].insert(0, "-std=gnu11")
        u["flags"] += ["-UNDEBUG", "-w"]
        out.append(u)
    if not os.path.exists(os.path.join(repo, "src", "config.h")):
        raise CompdbError("src/config.h missing: tree not configured")
    return out


def regenerate_built_sources(repo="/repo"):
    """Bring generated C sources up to date with their inputs (what `make` would do first)."""
    jobs = (("lib", ["fmt-special.c", "version.c", "ltrcc.yucc", "tzmap.yucc"]),
            ("src", ["strpdt-special.c", "dexpr-parser.c", "dexpr-scanner.c",
                     "dadd.yucc", "dconv.yucc", "ddiff.yucc", "dgrep.yucc", "dround.yucc",
                     "dseq.yucc", "dsort.yucc", "dtest.yucc", "dzone.yucc", "strptime.yucc"]))
    log = []
    for sub, tg in jobs:
        cmd = ["make", "-s", "-k"]
        for o in OLD:
            cmd += ["-o", o]
        cmd += ["-C", os.path.join(repo, sub)] + tg
        p = subprocess.run(cmd, stdout=subprocess.PIPE, stderr=subprocess.STDOUT, text=True)
        log.append((sub, p.returncode, p.stdout[-2000:]))
    return log


if __name__ == "__main__":
    import json
    import sys
    print(json.dumps(harvest(sys.argv[1] if len(sys.argv) > 1 else "/repo"), indent=1))
