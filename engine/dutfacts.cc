// dutfacts -- repository-specific fact extractor for dateutils (clang-14 libTooling)
//
// usage: dutfacts <out.json> <file.c> -- <compile flags>
//
// Emits, for one translation unit, a compact JSON fact base:
//   files, types, enums, records (with ASTRecordLayout), macros, globals
//   (with constant-evaluated initialisers), functions (serialised AST of the
//   body plus clang::CFG with setAllAlwaysAdd()).
// Only declarations outside system headers are emitted.  Nothing is executed.
#include "clang/AST/ASTConsumer.h"
#include "clang/AST/ASTContext.h"
#include "clang/AST/Expr.h"
#include "clang/AST/RecordLayout.h"
#include "clang/AST/Stmt.h"
#include "clang/Analysis/CFG.h"
#include "clang/Frontend/CompilerInstance.h"
#include "clang/Frontend/FrontendAction.h"
#include "clang/Lex/Lexer.h"
#include "clang/Lex/PPCallbacks.h"
#include "clang/Lex/Preprocessor.h"
#include "clang/Tooling/CommonOptionsParser.h"
#include "clang/Tooling/Tooling.h"
#include "llvm/Support/JSON.h"
#include "llvm/Support/raw_ostream.h"
#include <map>
#include <string>
#include <vector>

using namespace clang;
using llvm::json::OStream;

namespace {

static std::string g_out;

static std::string latin1(llvm::StringRef bytes) {
  std::string r;
  for (unsigned char c : bytes) {
    if (c < 0x80) r.push_back((char)c);
    else { r.push_back((char)(0xC0 | (c >> 6))); r.push_back((char)(0x80 | (c & 0x3F))); }
  }
  return r;
}

struct MacroRec { std::string name, file, body; unsigned line; };

class Emitter {
public:
  ASTContext &Ctx;
  SourceManager &SM;
  const LangOptions &LO;
  OStream &J;
  std::map<const Decl *, int> declIds;
  std::map<const void *, int> typeIds;
  std::vector<QualType> types;
  std::map<std::string, int> fileIds;
  std::vector<std::string> files;
  std::map<const Stmt *, int> stmtIds;
  std::map<const Decl *, int> varNodeIds;
  int nextStmt = 0;

  Emitter(ASTContext &C, OStream &J) : Ctx(C), SM(C.getSourceManager()), LO(C.getLangOpts()), J(J) {}

  int declId(const Decl *D) {
    D = D->getCanonicalDecl();
    auto it = declIds.find(D);
    if (it != declIds.end()) return it->second;
    int id = (int)declIds.size() + 1;
    declIds[D] = id;
    return id;
  }
  int typeId(QualType T) {
    const void *k = T.getAsOpaquePtr();
    auto it = typeIds.find(k);
    if (it != typeIds.end()) return it->second;
    int id = (int)types.size();
    typeIds[k] = id;
    types.push_back(T);
    return id;
  }
  int fileId(SourceLocation L) {
    L = SM.getExpansionLoc(L);
    std::string fn = SM.getFilename(L).str();
    auto it = fileIds.find(fn);
    if (it != fileIds.end()) return it->second;
    int id = (int)files.size();
    fileIds[fn] = id;
    files.push_back(fn);
    return id;
  }
  unsigned lineOf(SourceLocation L) { return SM.getExpansionLineNumber(L); }
  bool inSys(SourceLocation L) {
    if (L.isInvalid()) return true;
    return SM.isInSystemHeader(SM.getExpansionLoc(L));
  }

  void macroNames(SourceLocation L) {
    // innermost -> outermost macro names through which this token was produced
    if (!L.isMacroID()) return;
    J.attributeBegin("ms");
    J.arrayBegin();
    int guard = 0;
    while (L.isMacroID() && guard++ < 16) {
      llvm::StringRef n = Lexer::getImmediateMacroName(L, SM, LO);
      J.value(n);
      L = SM.getImmediateMacroCallerLoc(L);
    }
    J.arrayEnd();
    J.attributeEnd();
  }

  void apvalue(const APValue &V, QualType T) {
    switch (V.getKind()) {
    case APValue::Int:
      J.value((int64_t)V.getInt().getExtValue());
      break;
    case APValue::Float:
      J.value(V.getFloat().convertToDouble());
      break;
    case APValue::Array: {
      J.arrayBegin();
      unsigned n = V.getArraySize(), ni = V.getArrayInitializedElts();
      QualType ET;
      if (const ArrayType *AT = Ctx.getAsArrayType(T)) ET = AT->getElementType();
      for (unsigned i = 0; i < n; i++) {
        const APValue &E = i < ni ? V.getArrayInitializedElt(i) : V.getArrayFiller();
        apvalue(E, ET);
      }
      J.arrayEnd();
      break;
    }
    case APValue::Struct: {
      J.objectBegin();
      const RecordDecl *RD = T.isNull() ? nullptr : T->getAsRecordDecl();
      unsigned i = 0;
      if (RD)
        for (const FieldDecl *F : RD->fields()) {
          if (i >= V.getStructNumFields()) break;
          std::string nm = F->getNameAsString();
          if (nm.empty()) nm = "#" + std::to_string(i);
          J.attributeBegin(nm);
          apvalue(V.getStructField(i), F->getType());
          J.attributeEnd();
          i++;
        }
      J.objectEnd();
      break;
    }
    case APValue::Union: {
      J.objectBegin();
      if (const FieldDecl *F = V.getUnionField()) {
        std::string nm = F->getNameAsString();
        if (nm.empty()) nm = "#u";
        J.attributeBegin(nm);
        apvalue(V.getUnionValue(), F->getType());
        J.attributeEnd();
      }
      J.objectEnd();
      break;
    }
    case APValue::LValue: {
      J.objectBegin();
      APValue::LValueBase B = V.getLValueBase();
      if (B.isNull()) {
        J.attribute("null", true);
      } else if (const Expr *E = B.dyn_cast<const Expr *>()) {
        if (const StringLiteral *SL = dyn_cast<StringLiteral>(E->IgnoreParenCasts()))
          J.attribute("str", latin1(SL->getBytes()));
        else
          J.attribute("expr", E->getStmtClassName());
      } else if (const ValueDecl *D = B.dyn_cast<const ValueDecl *>()) {
        J.attribute("decl", D->getNameAsString());
      }
      if (!V.getLValueOffset().isZero()) J.attribute("off", (int64_t)V.getLValueOffset().getQuantity());
      J.objectEnd();
      break;
    }
    default:
      J.value(nullptr);
    }
  }

  // ---------------------------------------------------------------- AST
  void emitVarDecl(const VarDecl *VD) {
    J.objectBegin();
    int vid = nextStmt++;
    varNodeIds[VD] = vid;
    J.attribute("i", vid);
    J.attribute("k", "Var");
    J.attribute("d", declId(VD));
    J.attribute("n", VD->getNameAsString());
    J.attribute("t", typeId(VD->getType()));
    J.attribute("l", lineOf(VD->getLocation()));
    if (VD->isStaticLocal()) J.attribute("static", true);
    if (VD->hasInit()) {
      J.attributeBegin("c");
      J.arrayBegin();
      emitStmt(VD->getInit());
      J.arrayEnd();
      J.attributeEnd();
    }
    J.objectEnd();
  }

  void tryConst(const Expr *E) {
    if (E->isValueDependent()) return;
    QualType T = E->getType();
    if (T.isNull() || !(T->isIntegralOrEnumerationType())) return;
    if (!E->isPRValue()) return;
    Expr::EvalResult R;
    if (E->EvaluateAsInt(R, Ctx, Expr::SE_NoSideEffects)) {
      const llvm::APSInt &I = R.Val.getInt();
      if (I.isSigned() || I.getActiveBits() <= 63) J.attribute("v", (int64_t)I.getExtValue());
      else J.attribute("v", (int64_t)I.getZExtValue());
      if (!I.isSigned() && I.getActiveBits() == 64) J.attribute("vu64", true);
    }
  }

  void emitChildren(const Stmt *S) {
    bool any = false;
    for (const Stmt *C : S->children()) { if (C) { any = true; break; } }
    if (!any) return;
    J.attributeBegin("c");
    J.arrayBegin();
    for (const Stmt *C : S->children()) {
      if (C) emitStmt(C);
      else J.value(nullptr);
    }
    J.arrayEnd();
    J.attributeEnd();
  }

  void emitStmt(const Stmt *S) {
    if (!S) { J.value(nullptr); return; }
    // look through parens: keep the id mapping for the CFG
    if (const ParenExpr *PE = dyn_cast<ParenExpr>(S)) {
      // assign same id as inner
      int before = nextStmt;
      emitStmt(PE->getSubExpr());
      stmtIds[S] = before;  // id of inner node (first id allocated)
      return;
    }
    if (const ConstantExpr *CE = dyn_cast<ConstantExpr>(S)) {
      int before = nextStmt;
      emitStmt(CE->getSubExpr());
      stmtIds[S] = before;
      return;
    }
    int id = nextStmt++;
    stmtIds[S] = id;
    J.objectBegin();
    J.attribute("i", id);
    std::string k = S->getStmtClassName();
    J.attribute("k", k);
    J.attribute("l", lineOf(S->getBeginLoc()));
    if (S->getBeginLoc().isMacroID()) macroNames(S->getBeginLoc());
    if (const Expr *E = dyn_cast<Expr>(S)) {
      J.attribute("t", typeId(E->getType()));
      if (!isa<IntegerLiteral>(E) && !isa<CharacterLiteral>(E) && !isa<InitListExpr>(E)) tryConst(E);
    }
    switch (S->getStmtClass()) {
    case Stmt::DeclRefExprClass: {
      const DeclRefExpr *DR = cast<DeclRefExpr>(S);
      const ValueDecl *D = DR->getDecl();
      J.attribute("d", declId(D));
      J.attribute("n", D->getNameAsString());
      const char *dk = "other";
      if (isa<ParmVarDecl>(D)) dk = "parm";
      else if (const VarDecl *VD = dyn_cast<VarDecl>(D)) dk = VD->hasGlobalStorage() ? "gvar" : "var";
      else if (isa<FunctionDecl>(D)) dk = "func";
      else if (isa<EnumConstantDecl>(D)) dk = "enum";
      J.attribute("dk", dk);
      break;
    }
    case Stmt::MemberExprClass: {
      const MemberExpr *ME = cast<MemberExpr>(S);
      const ValueDecl *MD = ME->getMemberDecl();
      J.attribute("n", MD->getNameAsString());
      if (ME->isArrow()) J.attribute("arrow", true);
      if (const FieldDecl *FD = dyn_cast<FieldDecl>(MD)) {
        J.attribute("rec", declId(FD->getParent()));
        J.attribute("fi", FD->getFieldIndex());
        if (FD->isBitField()) J.attribute("bw", FD->getBitWidthValue(Ctx));
      }
      emitChildren(S);
      break;
    }
    case Stmt::IntegerLiteralClass: {
      const IntegerLiteral *IL = cast<IntegerLiteral>(S);
      llvm::APInt V = IL->getValue();
      if (V.getActiveBits() <= 63) J.attribute("v", (int64_t)V.getZExtValue());
      else { J.attribute("v", (int64_t)V.getZExtValue()); J.attribute("vu64", true); }
      break;
    }
    case Stmt::CharacterLiteralClass:
      J.attribute("v", (int64_t)cast<CharacterLiteral>(S)->getValue());
      break;
    case Stmt::FloatingLiteralClass:
      J.attribute("fv", cast<FloatingLiteral>(S)->getValueAsApproximateDouble());
      break;
    case Stmt::StringLiteralClass:
      J.attribute("s", latin1(cast<StringLiteral>(S)->getBytes()));
      break;
    case Stmt::BinaryOperatorClass:
    case Stmt::CompoundAssignOperatorClass:
      J.attribute("op", cast<BinaryOperator>(S)->getOpcodeStr());
      emitChildren(S);
      break;
    case Stmt::UnaryOperatorClass: {
      const UnaryOperator *UO = cast<UnaryOperator>(S);
      J.attribute("op", UnaryOperator::getOpcodeStr(UO->getOpcode()));
      if (UO->isPostfix()) J.attribute("postfix", true);
      emitChildren(S);
      break;
    }
    case Stmt::CallExprClass: {
      const CallExpr *CE = cast<CallExpr>(S);
      if (const FunctionDecl *FD = CE->getDirectCallee()) {
        J.attribute("callee", FD->getNameAsString());
        J.attribute("cd", declId(FD));
        if (unsigned b = FD->getBuiltinID()) J.attribute("builtin", b);
      }
      emitChildren(S);
      break;
    }
    case Stmt::ImplicitCastExprClass:
    case Stmt::CStyleCastExprClass: {
      const CastExpr *CE = cast<CastExpr>(S);
      J.attribute("ck", CE->getCastKindName());
      emitChildren(S);
      break;
    }
    case Stmt::UnaryExprOrTypeTraitExprClass: {
      const UnaryExprOrTypeTraitExpr *UE = cast<UnaryExprOrTypeTraitExpr>(S);
      J.attribute("trait", (int)UE->getKind());
      if (UE->isArgumentType()) J.attribute("at", typeId(UE->getArgumentType()));
      emitChildren(S);
      break;
    }
    case Stmt::CaseStmtClass: {
      const CaseStmt *CS = cast<CaseStmt>(S);
      Expr::EvalResult R;
      if (CS->getLHS() && CS->getLHS()->EvaluateAsInt(R, Ctx)) J.attribute("lo", (int64_t)R.Val.getInt().getExtValue());
      if (CS->getRHS() && CS->getRHS()->EvaluateAsInt(R, Ctx)) J.attribute("hi", (int64_t)R.Val.getInt().getExtValue());
      if (CS->getLHS())
        if (const DeclRefExpr *DR = dyn_cast<DeclRefExpr>(CS->getLHS()->IgnoreParenCasts()))
          if (isa<EnumConstantDecl>(DR->getDecl())) J.attribute("en", DR->getDecl()->getNameAsString());
      emitChildren(S);
      break;
    }
    case Stmt::DeclStmtClass: {
      const DeclStmt *DS = cast<DeclStmt>(S);
      J.attributeBegin("c");
      J.arrayBegin();
      for (const Decl *D : DS->decls()) {
        if (const VarDecl *VD = dyn_cast<VarDecl>(D)) emitVarDecl(VD);
      }
      J.arrayEnd();
      J.attributeEnd();
      break;
    }
    case Stmt::GotoStmtClass:
      J.attribute("label", cast<GotoStmt>(S)->getLabel()->getNameAsString());
      break;
    case Stmt::LabelStmtClass:
      J.attribute("label", cast<LabelStmt>(S)->getDecl()->getNameAsString());
      emitChildren(S);
      break;
    case Stmt::InitListExprClass: {
      const InitListExpr *IL = cast<InitListExpr>(S);
      const InitListExpr *Sem = IL->isSemanticForm() ? IL : IL->getSemanticForm();
      if (!Sem) Sem = IL;
      stmtIds[Sem] = id;
      J.attributeBegin("c");
      J.arrayBegin();
      for (const Expr *E : Sem->inits()) emitStmt(E);
      J.arrayEnd();
      J.attributeEnd();
      if (Sem->hasArrayFiller()) J.attribute("filler", true);
      if (const FieldDecl *UF = Sem->getInitializedFieldInUnion()) J.attribute("ufield", UF->getNameAsString());
      break;
    }
    case Stmt::OpaqueValueExprClass:
      // do not re-serialise the source expression
      break;
    case Stmt::BinaryConditionalOperatorClass: {
      const BinaryConditionalOperator *BC = cast<BinaryConditionalOperator>(S);
      J.attributeBegin("c");
      J.arrayBegin();
      emitStmt(BC->getCommon());
      emitStmt(BC->getFalseExpr());
      J.arrayEnd();
      J.attributeEnd();
      break;
    }
    case Stmt::IfStmtClass: {
      const IfStmt *IS = cast<IfStmt>(S);
      J.attributeBegin("c");
      J.arrayBegin();
      emitStmt(IS->getCond());
      emitStmt(IS->getThen());
      emitStmt(IS->getElse());
      J.arrayEnd();
      J.attributeEnd();
      break;
    }
    case Stmt::ForStmtClass: {
      const ForStmt *FS = cast<ForStmt>(S);
      J.attributeBegin("c");
      J.arrayBegin();
      emitStmt(FS->getInit());
      emitStmt(FS->getCond());
      emitStmt(FS->getInc());
      emitStmt(FS->getBody());
      J.arrayEnd();
      J.attributeEnd();
      break;
    }
    case Stmt::WhileStmtClass: {
      const WhileStmt *WS = cast<WhileStmt>(S);
      J.attributeBegin("c");
      J.arrayBegin();
      emitStmt(WS->getCond());
      emitStmt(WS->getBody());
      J.arrayEnd();
      J.attributeEnd();
      break;
    }
    case Stmt::SwitchStmtClass: {
      const SwitchStmt *SS = cast<SwitchStmt>(S);
      J.attributeBegin("c");
      J.arrayBegin();
      emitStmt(SS->getCond());
      emitStmt(SS->getBody());
      J.arrayEnd();
      J.attributeEnd();
      break;
    }
    default:
      emitChildren(S);
    }
    J.objectEnd();
  }

  // ---------------------------------------------------------------- CFG
  void emitCFG(const FunctionDecl *FD) {
    CFG::BuildOptions BO;
    BO.setAllAlwaysAdd();
    BO.AddEHEdges = false;
    BO.PruneTriviallyFalseEdges = false;
    std::unique_ptr<CFG> G = CFG::buildCFG(FD, FD->getBody(), &Ctx, BO);
    if (!G) return;
    J.attributeBegin("cfg");
    J.objectBegin();
    J.attribute("entry", G->getEntry().getBlockID());
    J.attribute("exit", G->getExit().getBlockID());
    J.attributeBegin("blocks");
    J.arrayBegin();
    for (const CFGBlock *B : *G) {
      J.objectBegin();
      J.attribute("b", B->getBlockID());
      J.attributeBegin("e");
      J.arrayBegin();
      for (const CFGElement &El : *B) {
        if (Optional<CFGStmt> CS = El.getAs<CFGStmt>()) {
          auto it = stmtIds.find(CS->getStmt());
          int id = it == stmtIds.end() ? -1 : it->second;
          if (id < 0) {
            // clang splits `T a = .., b = ..;` into synthetic one-declarator DeclStmts: point at the Var node
            if (const DeclStmt *DS = dyn_cast<DeclStmt>(CS->getStmt()))
              if (DS->isSingleDecl()) {
                auto vt = varNodeIds.find(DS->getSingleDecl());
                if (vt != varNodeIds.end()) id = vt->second;
              }
          }
          J.value(id);
        }
      }
      J.arrayEnd();
      J.attributeEnd();
      if (const Stmt *T = B->getTerminatorStmt()) {
        auto it = stmtIds.find(T);
        J.attribute("term", it == stmtIds.end() ? -1 : it->second);
        J.attribute("tk", T->getStmtClassName());
      }
      if (const Stmt *TC = B->getTerminatorCondition()) {
        auto it = stmtIds.find(TC);
        J.attribute("cond", it == stmtIds.end() ? -1 : it->second);
      }
      if (const Stmt *L = B->getLabel()) {
        auto it = stmtIds.find(L);
        J.attribute("label", it == stmtIds.end() ? -1 : it->second);
      }
      if (const Stmt *LT = B->getLoopTarget()) {
        auto it = stmtIds.find(LT);
        J.attribute("looptarget", it == stmtIds.end() ? -1 : it->second);
      }
      J.attributeBegin("s");
      J.arrayBegin();
      for (auto I = B->succ_begin(); I != B->succ_end(); ++I) {
        const CFGBlock *SB = I->getReachableBlock();
        if (!SB) SB = I->getPossiblyUnreachableBlock();
        if (SB) J.value(SB->getBlockID());
        else J.value(nullptr);
      }
      J.arrayEnd();
      J.attributeEnd();
      J.objectEnd();
    }
    J.arrayEnd();
    J.attributeEnd();
    J.objectEnd();
    J.attributeEnd();
  }

  // ---------------------------------------------------------------- decls
  void emitFunction(const FunctionDecl *FD) {
    stmtIds.clear();
    varNodeIds.clear();
    nextStmt = 0;
    J.objectBegin();
    J.attribute("d", declId(FD));
    J.attribute("name", FD->getNameAsString());
    J.attribute("file", fileId(FD->getLocation()));
    J.attribute("line", lineOf(FD->getBeginLoc()));
    J.attribute("endline", lineOf(FD->getEndLoc()));
    if (FD->getStorageClass() == SC_Static) J.attribute("static", true);
    if (FD->isInlineSpecified()) J.attribute("inline", true);
    J.attribute("ret", typeId(FD->getReturnType()));
    J.attributeBegin("params");
    J.arrayBegin();
    for (const ParmVarDecl *P : FD->parameters()) {
      J.objectBegin();
      J.attribute("d", declId(P));
      J.attribute("n", P->getNameAsString());
      J.attribute("t", typeId(P->getOriginalType()));
      J.objectEnd();
    }
    J.arrayEnd();
    J.attributeEnd();
    J.attributeBegin("body");
    emitStmt(FD->getBody());
    J.attributeEnd();
    emitCFG(FD);
    J.objectEnd();
  }

  void emitRecord(const RecordDecl *RD) {
    J.objectBegin();
    J.attribute("d", declId(RD));
    J.attribute("name", RD->getNameAsString());
    if (const TypedefNameDecl *TD = RD->getTypedefNameForAnonDecl()) J.attribute("tdname", TD->getNameAsString());
    J.attribute("kind", RD->isUnion() ? "union" : "struct");
    J.attribute("file", fileId(RD->getLocation()));
    J.attribute("line", lineOf(RD->getLocation()));
    if (RD->isAnonymousStructOrUnion()) J.attribute("anon", true);
    if (!RD->isInvalidDecl() && RD->isCompleteDefinition()) {
      const ASTRecordLayout &L = Ctx.getASTRecordLayout(RD);
      J.attribute("size", (int64_t)L.getSize().getQuantity());
      J.attributeBegin("fields");
      J.arrayBegin();
      unsigned i = 0;
      for (const FieldDecl *F : RD->fields()) {
        J.objectBegin();
        J.attribute("n", F->getNameAsString());
        J.attribute("t", typeId(F->getType()));
        J.attribute("off", (int64_t)L.getFieldOffset(i));
        if (F->isBitField()) J.attribute("bw", F->getBitWidthValue(Ctx));
        else J.attribute("sz", (int64_t)Ctx.getTypeSize(F->getType()));
        QualType FT = F->getType();
        if (const ArrayType *AT = Ctx.getAsArrayType(FT)) FT = AT->getElementType();
        if (const RecordDecl *FR = FT->getAsRecordDecl()) J.attribute("rec", declId(FR));
        J.attribute("signed", F->getType()->isSignedIntegerOrEnumerationType());
        J.objectEnd();
        i++;
      }
      J.arrayEnd();
      J.attributeEnd();
    }
    J.objectEnd();
  }

  void emitTypes() {
    J.attributeBegin("types");
    J.arrayBegin();
    // types vector may grow while emitting (no: we only print strings) -- iterate by index
    for (size_t i = 0; i < types.size(); i++) {
      QualType T = types[i];
      J.objectBegin();
      if (T.isNull()) { J.attribute("s", "<null>"); J.attribute("c", "<null>"); J.attributeBegin("td"); J.arrayBegin(); J.arrayEnd(); J.attributeEnd(); J.objectEnd(); continue; }
      if (getenv("DUTFACTS_DEBUG")) llvm::errs() << "type " << i << " " << T.getAsString() << "\n";
      J.attribute("s", T.getAsString());
      QualType C = T.getCanonicalType();
      J.attribute("c", C.getAsString());
      if (!T->isPlaceholderType() && !T->isIncompleteType() && !T->isFunctionType() && !T->isDependentType()) {
        J.attribute("w", (int64_t)Ctx.getTypeSize(T));
      }
      if (T->isIntegralOrEnumerationType()) {
        J.attribute("int", true);
        J.attribute("sg", T->isSignedIntegerOrEnumerationType());
      }
      if (T->isPointerType()) {
        J.attribute("ptr", true);
      }
      if (T->isPlaceholderType()) { J.attributeBegin("td"); J.arrayBegin(); J.arrayEnd(); J.attributeEnd(); J.objectEnd(); continue; }
      if (const ConstantArrayType *CA = Ctx.getAsConstantArrayType(T)) {
        J.attribute("arr", (int64_t)CA->getSize().getZExtValue());
      }
      if (const RecordDecl *RD = T->getAsRecordDecl()) J.attribute("rec", declId(RD));
      // typedef chain (sugar): list the typedef names peeled one by one
      {
        J.attributeBegin("td");
        J.arrayBegin();
        QualType Q = T;
        int guard = 0;
        while (guard++ < 8) {
          if (const TypedefType *TT = Q->getAs<TypedefType>()) {
            J.value(TT->getDecl()->getNameAsString());
            Q = TT->getDecl()->getUnderlyingType();
          } else break;
        }
        J.arrayEnd();
        J.attributeEnd();
      }
      J.objectEnd();
    }
    J.arrayEnd();
    J.attributeEnd();
  }
};

class Consumer : public ASTConsumer {
  std::vector<MacroRec> &Macros;
  std::string Main;
public:
  Consumer(std::vector<MacroRec> &M, std::string Main) : Macros(M), Main(Main) {}
  void HandleTranslationUnit(ASTContext &Ctx) override {
    std::error_code EC;
    llvm::raw_fd_ostream OS(g_out, EC);
    if (EC) { llvm::errs() << "cannot open " << g_out << "\n"; exit(3); }
    OStream J(OS);
    Emitter E(Ctx, J);
    J.objectBegin();
    J.attribute("main", Main);
    unsigned nerr = Ctx.getDiagnostics().getClient()->getNumErrors();
    J.attribute("errors", (int64_t)nerr);

    std::vector<const FunctionDecl *> funcs;
    std::vector<const VarDecl *> gvars;
    std::vector<const RecordDecl *> recs;
    std::vector<const EnumDecl *> enums;
    std::vector<const TypedefNameDecl *> tds;
    std::vector<const FunctionDecl *> fdecls;

    struct Collect {
      Emitter &E;
      std::vector<const FunctionDecl *> &funcs;
      std::vector<const VarDecl *> &gvars;
      std::vector<const RecordDecl *> &recs;
      std::vector<const EnumDecl *> &enums;
      std::vector<const TypedefNameDecl *> &tds;
      std::vector<const FunctionDecl *> &fdecls;
      void localStatics(const Stmt *S) {
        if (!S) return;
        if (const DeclStmt *DS = dyn_cast<DeclStmt>(S))
          for (const Decl *D : DS->decls()) {
            if (const VarDecl *VD = dyn_cast<VarDecl>(D)) { if (VD->hasGlobalStorage()) gvars.push_back(VD); }
            else if (const RecordDecl *RD = dyn_cast<RecordDecl>(D)) rec(RD);
          }
        for (const Stmt *C : S->children()) localStatics(C);
      }
      void rec(const RecordDecl *RD) {
        if (!RD->isCompleteDefinition()) return;
        recs.push_back(RD);
        for (const Decl *D : RD->decls()) {
          if (const RecordDecl *R2 = dyn_cast<RecordDecl>(D)) rec(R2);
          else if (const EnumDecl *ED = dyn_cast<EnumDecl>(D)) enums.push_back(ED);
        }
      }
      void top(const Decl *D) {
        if (E.inSys(D->getLocation())) return;
        if (const FunctionDecl *FD = dyn_cast<FunctionDecl>(D)) {
          if (FD->doesThisDeclarationHaveABody()) { funcs.push_back(FD); localStatics(FD->getBody()); }
          else fdecls.push_back(FD);
        } else if (const VarDecl *VD = dyn_cast<VarDecl>(D)) {
          gvars.push_back(VD);
        } else if (const RecordDecl *RD = dyn_cast<RecordDecl>(D)) {
          rec(RD);
        } else if (const EnumDecl *ED = dyn_cast<EnumDecl>(D)) {
          enums.push_back(ED);
        } else if (const TypedefNameDecl *TD = dyn_cast<TypedefNameDecl>(D)) {
          tds.push_back(TD);
        }
      }
    } C{E, funcs, gvars, recs, enums, tds, fdecls};
    for (const Decl *D : Ctx.getTranslationUnitDecl()->decls()) C.top(D);

    J.attributeBegin("functions");
    J.arrayBegin();
    for (const FunctionDecl *FD : funcs) E.emitFunction(FD);
    J.arrayEnd();
    J.attributeEnd();

    J.attributeBegin("fdecls");
    J.arrayBegin();
    for (const FunctionDecl *FD : fdecls) {
      J.objectBegin();
      J.attribute("d", E.declId(FD));
      J.attribute("name", FD->getNameAsString());
      J.attribute("file", E.fileId(FD->getLocation()));
      J.attribute("line", E.lineOf(FD->getLocation()));
      if (FD->getStorageClass() == SC_Static) J.attribute("static", true);
      J.attribute("ret", E.typeId(FD->getReturnType()));
      J.attributeBegin("params");
      J.arrayBegin();
      for (const ParmVarDecl *P : FD->parameters()) {
        J.objectBegin();
        J.attribute("n", P->getNameAsString());
        J.attribute("t", E.typeId(P->getOriginalType()));
        J.objectEnd();
      }
      J.arrayEnd();
      J.attributeEnd();
      J.objectEnd();
    }
    J.arrayEnd();
    J.attributeEnd();

    J.attributeBegin("globals");
    J.arrayBegin();
    for (const VarDecl *VD : gvars) {
      J.objectBegin();
      J.attribute("d", E.declId(VD));
      J.attribute("name", VD->getNameAsString());
      J.attribute("t", E.typeId(VD->getType()));
      J.attribute("file", E.fileId(VD->getLocation()));
      J.attribute("line", E.lineOf(VD->getLocation()));
      if (VD->isStaticLocal()) {
        J.attribute("local", true);
        if (const FunctionDecl *PF = dyn_cast<FunctionDecl>(VD->getDeclContext())) J.attribute("func", PF->getNameAsString());
      }
      if (VD->getStorageClass() == SC_Static) J.attribute("static", true);
      if (VD->getStorageClass() == SC_Extern) J.attribute("extern", true);
      if (VD->getType().isConstQualified() ||
          (Ctx.getAsArrayType(VD->getType()) && Ctx.getAsArrayType(VD->getType())->getElementType().isConstQualified()))
        J.attribute("const", true);
      if (VD->hasInit() && VD->isThisDeclarationADefinition()) {
        J.attribute("hasinit", true);
        if (const APValue *V = VD->evaluateValue()) {
          J.attributeBegin("val");
          E.apvalue(*V, VD->getType());
          J.attributeEnd();
        }
        E.stmtIds.clear();
        E.nextStmt = 0;
        J.attributeBegin("init");
        E.emitStmt(VD->getInit());
        J.attributeEnd();
      }
      if (VD->isThisDeclarationADefinition()) J.attribute("def", true);
      J.objectEnd();
    }
    J.arrayEnd();
    J.attributeEnd();

    J.attributeBegin("records");
    J.arrayBegin();
    for (const RecordDecl *RD : recs) E.emitRecord(RD);
    J.arrayEnd();
    J.attributeEnd();

    J.attributeBegin("enums");
    J.arrayBegin();
    for (const EnumDecl *ED : enums) {
      if (!ED->isCompleteDefinition()) continue;
      J.objectBegin();
      J.attribute("name", ED->getNameAsString());
      if (const TypedefNameDecl *TD = ED->getTypedefNameForAnonDecl()) J.attribute("tdname", TD->getNameAsString());
      J.attribute("file", E.fileId(ED->getLocation()));
      J.attribute("line", E.lineOf(ED->getLocation()));
      J.attributeBegin("items");
      J.arrayBegin();
      for (const EnumConstantDecl *EC : ED->enumerators()) {
        J.arrayBegin();
        J.value(EC->getNameAsString());
        J.value((int64_t)EC->getInitVal().getExtValue());
        J.arrayEnd();
      }
      J.arrayEnd();
      J.attributeEnd();
      J.objectEnd();
    }
    J.arrayEnd();
    J.attributeEnd();

    J.attributeBegin("typedefs");
    J.arrayBegin();
    for (const TypedefNameDecl *TD : tds) {
      J.objectBegin();
      J.attribute("name", TD->getNameAsString());
      J.attribute("t", E.typeId(TD->getUnderlyingType()));
      J.objectEnd();
    }
    J.arrayEnd();
    J.attributeEnd();

    J.attributeBegin("macros");
    J.arrayBegin();
    for (const MacroRec &M : Macros) {
      J.objectBegin();
      J.attribute("name", M.name);
      J.attribute("file", M.file);
      J.attribute("line", (int64_t)M.line);
      J.attribute("body", M.body);
      J.objectEnd();
    }
    J.arrayEnd();
    J.attributeEnd();

    E.emitTypes();

    J.attributeBegin("files");
    J.arrayBegin();
    for (const std::string &F : E.files) J.value(F);
    J.arrayEnd();
    J.attributeEnd();
    J.objectEnd();
  }
};

class MacroCB : public PPCallbacks {
  Preprocessor &PP;
  std::vector<MacroRec> &Out;
public:
  MacroCB(Preprocessor &PP, std::vector<MacroRec> &O) : PP(PP), Out(O) {}
  void MacroDefined(const Token &Name, const MacroDirective *MD) override {
    SourceManager &SM = PP.getSourceManager();
    SourceLocation L = Name.getLocation();
    if (L.isInvalid() || SM.isInSystemHeader(L) || !SM.getFileEntryForID(SM.getFileID(L))) return;
    const MacroInfo *MI = MD->getMacroInfo();
    MacroRec R;
    R.name = Name.getIdentifierInfo()->getName().str();
    R.file = SM.getFilename(L).str();
    R.line = SM.getSpellingLineNumber(L);
    if (MI->isFunctionLike()) R.body = "(fn) ";
    for (const Token &T : MI->tokens()) {
      if (T.hasLeadingSpace() && !R.body.empty()) R.body += " ";
      R.body += latin1(PP.getSpelling(T));
    }
    Out.push_back(R);
  }
};

class Action : public ASTFrontendAction {
  std::vector<MacroRec> Macros;
public:
  std::unique_ptr<ASTConsumer> CreateASTConsumer(CompilerInstance &CI, llvm::StringRef File) override {
    CI.getPreprocessor().addPPCallbacks(std::make_unique<MacroCB>(CI.getPreprocessor(), Macros));
    return std::make_unique<Consumer>(Macros, File.str());
  }
};

}  // namespace

int main(int argc, const char **argv) {
  if (argc < 4) {
    llvm::errs() << "usage: dutfacts <out.json> <file.c> -- <flags>\n";
    return 2;
  }
  g_out = argv[1];
  std::string file = argv[2];
  std::vector<std::string> args;
  int i = 3;
  if (std::string(argv[i]) == "--") i++;
  for (; i < argc; i++) args.push_back(argv[i]);
  clang::tooling::FixedCompilationDatabase DB(".", args);
  clang::tooling::ClangTool Tool(DB, {file});
  int rc = Tool.run(clang::tooling::newFrontendActionFactory<Action>().get());
  return rc;
}
